package cluster

import (
	"time"

	cs "github.com/lianxiangcloud/linkchain/consensus"
	"github.com/lianxiangcloud/linkchain/libs/ser"
	"github.com/lianxiangcloud/linkchain/types"
)

// The "starve" adversary: a Byzantine validator with full control over
// delivery order (both are inside C01's quantifier) that engineers the
// situation the locking rules exist for. With four equal validators:
//
//	round r0:   every correct node misses exactly one prevote for the proposed
//	            block X, so nobody sees a polka; the adversary prevotes nil so
//	            that everybody sees +2/3 of any, times out and precommits nil;
//	round r0+1: a new block Y is proposed; only the victim receives all
//	            prevotes for Y, sees the polka, locks Y and precommits it; the
//	            others precommit nil, no commit;
//	round r0+2: the withheld round-r0 prevotes for X are released to the
//	            victim: a proof-of-lock for X from a round BEFORE its lock.
//
// A correct victim stays locked on Y. What it does is judged by the ordinary
// oracles (I2-I5, agreement); the script asserts nothing itself.
//
// Two more scripts use the same machinery (added after seeded changes C01-9
// and C01-8, which the first script and the random schedules did not reach):
//
// "relock" (victim = the honest proposer of round r0+2):
//
//	round r0:   only the victim sees the polka for the proposed block B, locks
//	            it and precommits it (the adversary votes nil, every other
//	            correct node misses one prevote); no commit;
//	round r0+1: the unlocked nodes prevote a new block B1, the victim prevotes
//	            B; the adversary shows nil to the others and keeps its prevote
//	            for B1 back: a polka for B1 exists that nobody has seen;
//	round r0+2: the victim proposes its locked block again, everybody prevotes
//	            it, again only the victim sees the polka: it RE-locks B (its
//	            lock now dates from round r0+2) and precommits it; no commit;
//	later:      the adversary's round-(r0+1) prevote for B1 reaches the victim:
//	            a proof-of-lock for another block that is NEWER than the
//	            victim's first lock and OLDER than its latest one.
//
// "round-skip" (victim = a lagging node):
//
//	round r0:   the other two correct nodes see the polka for B, lock and
//	            precommit it; the victim misses one prevote, precommits nil
//	            and then receives no precommit at all, so it stays in round r0
//	            holding the complete block B;
//	round r0+1: the locked nodes and the adversary prevote B; these prevotes
//	            reach the victim while it is still in round r0: +2/3 prevotes
//	            for one block in a round ahead of the node.
type starve struct {
	script   string         // stale-pol | relock | round-skip
	b1       *types.BlockID // relock: what the unlocked nodes prevoted in round r0+1
	H        uint64
	r0       int
	victim   int
	withheld map[int]string // destination node -> validator address (hex) whose block prevotes it does not get
	held     [][]byte       // encoded round-r0 prevotes for the victim
	released bool
	releaseR int
}

func (cl *Cluster) initStarve(b *byzActor) {
	t := cl.c.Tape.Fork("starve")
	h := cl.honest()
	s := &starve{H: uint64(t.Range(1, 2)), r0: t.Int(2), victim: h[t.Int(len(h))].idx, withheld: map[int]string{}}
	s.releaseR = s.r0 + 2 + t.Int(2)
	s.script = []string{"stale-pol", "relock", "round-skip"}[t.Int(3)]
	if s.script == "relock" {
		// the victim has to be the proposer of round r0+2 (it proposes its locked
		// block again): read the rotation of the first height off a node
		s.H = 1
		s.releaseR = s.r0 + 3 + t.Int(2)
		s.victim = -1
		for try := 0; try < 2 && s.victim < 0; try++ {
			vs := h[0].roundState().Validators.Copy()
			vs.IncrementAccum(s.r0 + 2)
			for _, n := range h {
				if bytesEqual(vs.GetProposer().Address, n.key.Address()) {
					s.victim = n.idx
				}
			}
			if s.victim < 0 {
				s.r0++ // the adversary's own turn: shift the script by one round
				s.releaseR++
			}
		}
		if s.victim < 0 {
			s.script, s.victim = "stale-pol", h[0].idx
		}
	}
	cl.c.Probe("adversary-script/" + s.script)
	for i, n := range h {
		s.withheld[n.idx] = hexOf(h[(i+1+t.Int(len(h)-1))%len(h)].key.Address())
		if s.withheld[n.idx] == hexOf(n.key.Address()) {
			s.withheld[n.idx] = hexOf(h[(i+1)%len(h)].key.Address())
		}
	}
	cl.adv = s
}

// intercept decides whether the adversary keeps a message from its destination.
func (s *starve) intercept(cl *Cluster, to int, msg cs.ConsensusMessage) bool {
	vm, ok := msg.(*cs.VoteMessage)
	if !ok || vm.Vote == nil || s.released {
		return false
	}
	v := vm.Vote
	if s.script == "relock" || s.script == "round-skip" {
		return s.intercept2(cl, to, v)
	}
	if v.Height != s.H || v.Type != types.VoteTypePrevote || v.BlockID.IsZero() || cl.isByz(to) {
		return false
	}
	if s.withheld[to] != hexOf(v.ValidatorAddress) {
		return false
	}
	switch v.Round {
	case s.r0:
		cl.c.Fault("adversary-withholds-prevote")
		if to == s.victim && len(s.held) < 8 {
			s.held = append(s.held, ser.MustEncodeToBytesWithType(msg))
		}
		return true
	case s.r0 + 1:
		if to != s.victim {
			cl.c.Fault("adversary-withholds-prevote")
			return true
		}
	}
	return false
}

// intercept2: delivery rules of the relock and round-skip scripts.
func (s *starve) intercept2(cl *Cluster, to int, v *types.Vote) bool {
	if v.Height != s.H || cl.isByz(to) {
		return false
	}
	from := hexOf(v.ValidatorAddress)
	victimAddr := hexOf(cl.nodes[s.victim].key.Address())
	blockPrevote := v.Type == types.VoteTypePrevote && !v.BlockID.IsZero()
	switch s.script {
	case "relock":
		if blockPrevote && v.Round == s.r0+1 && from != victimAddr && s.b1 == nil && !cl.isByzAddr(from) {
			id := v.BlockID
			s.b1 = &id
		}
		// the adversary's nil prevote of round r0+1 must not reach the victim by
		// any path (the other nodes' gossip would pass it on): its prevote for
		// B1 would then be refused as a conflicting vote
		if v.Type == types.VoteTypePrevote && v.Round == s.r0+1 && to == s.victim && v.BlockID.IsZero() && cl.isByzAddr(from) {
			return true
		}
		// lock rounds: only the victim sees the polka
		if blockPrevote && (v.Round == s.r0 || v.Round == s.r0+2) && to != s.victim && s.withheld[to] == from {
			cl.c.Fault("adversary-withholds-prevote")
			return true
		}
	case "round-skip":
		if to != s.victim {
			return false
		}
		// the victim misses one prevote for the block in round r0 ...
		if blockPrevote && v.Round == s.r0 && s.withheld[to] == from {
			cl.c.Fault("adversary-withholds-prevote")
			return true
		}
		// ... and every precommit of that round: it stays behind in round r0
		if v.Type == types.VoteTypePrecommit && v.Round == s.r0 {
			cl.c.Fault("adversary-withholds-precommit")
			return true
		}
	}
	return false
}

func (cl *Cluster) isByzAddr(hexAddr string) bool {
	for _, b := range cl.byz {
		if hexOf(b.n.key.Address()) == hexAddr {
			return true
		}
	}
	return false
}

// starveAct2 is the adversary's periodic action in the relock and round-skip scripts.
func (b *byzActor) starveAct2() {
	cl := b.cl
	s := cl.adv
	victim := cl.nodes[s.victim]
	for _, h := range cl.honest() {
		if !h.alive || h.failed {
			continue
		}
		rs := h.roundState()
		if rs.Height != s.H {
			continue
		}
		idx, _ := rs.Validators.GetByAddress(b.n.key.Address())
		if idx < 0 {
			continue
		}
		size := rs.Validators.Size()
		// a functioning proposer at its turns (the same block for everybody)
		if bytesEqual(rs.Validators.GetProposer().Address, b.n.key.Address()) && rs.Proposal == nil && rs.Step <= 3 {
			key := keyOf(h.idx, rs.Height, rs.Round, 0, "starve-prop")
			if !b.done[key] {
				b.done[key] = true
				if blk, _ := b.buildBlock(h, rs, 7+rs.Round); blk != nil {
					b.sendBlock(h, rs.Height, rs.Round, blk, "adversary-block")
				}
			}
		}
		last := s.r0 + 2
		if s.script == "round-skip" {
			last = s.r0
		}
		for r := s.r0; r <= last && r <= rs.Round; r++ {
			for _, typ := range []byte{types.VoteTypePrevote, types.VoteTypePrecommit} {
				if s.script == "relock" && r == s.r0+1 && typ == types.VoteTypePrevote && h.idx == s.victim {
					continue // its round-(r0+1) prevote for the victim is the one for B1, later
				}
				if s.script == "round-skip" && typ == types.VoteTypePrecommit && h.idx == s.victim {
					continue // the victim sees no precommit of round r0
				}
				key := keyOf(h.idx, rs.Height, r, typ, "starve-nil")
				if b.done[key] {
					continue
				}
				b.done[key] = true
				if v := b.signVote(rs.Height, r, typ, types.BlockID{}, size, idx); v != nil {
					cl.c.Fault("adversary-nil-vote")
					cl.send(b.n.idx, h.idx, voteMsg(v), "adversary-nil")
				}
			}
		}
		if s.script == "round-skip" && rs.Round >= s.r0+1 && h.idx != s.victim && rs.LockedBlock != nil && rs.LockedRound == s.r0 {
			// round r0+1: prevote what the locked nodes prevote, towards everybody
			id := types.BlockID{Hash: rs.LockedBlock.Hash(), PartsHeader: rs.LockedBlockParts.Header()}
			for _, d := range cl.honest() {
				key := keyOf(d.idx, rs.Height, s.r0+1, types.VoteTypePrevote, "skip-block")
				if b.done[key] || !d.alive || d.failed {
					continue
				}
				b.done[key] = true
				if v := b.signVote(rs.Height, s.r0+1, types.VoteTypePrevote, id, size, idx); v != nil {
					if d.idx == s.victim {
						if vrs := d.roundState(); vrs.Height == s.H && vrs.Round == s.r0 {
							cl.c.Probe("round-skip-script/polka-ahead-offered-to-lagging-victim")
							if vrs.ProposalBlock != nil {
								cl.c.Probe("round-skip-script/victim-holds-stale-proposal-block")
							}
						}
					}
					cl.c.Fault("adversary-block-vote")
					cl.send(b.n.idx, d.idx, voteMsg(v), "adversary-skip")
				}
			}
		}
	}
	if s.released || !victim.alive || victim.failed {
		return
	}
	rs := victim.roundState()
	if rs.Height > s.H {
		s.released = true
		return
	}
	if s.script == "relock" && rs.Height == s.H && rs.Round >= s.releaseR && s.b1 != nil {
		s.released = true
		idx, _ := rs.Validators.GetByAddress(b.n.key.Address())
		if idx < 0 {
			return
		}
		if rs.LockedBlock != nil && rs.LockedRound == s.r0+2 {
			cl.c.Probe("relock-script/older-pol-released-to-relocked-victim")
		} else if rs.LockedBlock != nil {
			cl.c.Probe("relock-script/released-to-locked-victim-without-relock")
		}
		if v := b.signVote(rs.Height, s.r0+1, types.VoteTypePrevote, *s.b1, rs.Validators.Size(), idx); v != nil {
			cl.c.Fault("adversary-releases-withheld-prevote")
			cl.send(b.n.idx, s.victim, voteMsg(v), "adversary-release")
		}
	}
}

// starveAct is the adversary's periodic action.
func (b *byzActor) starveAct() {
	cl := b.cl
	s := cl.adv
	defer cl.push(&event{at: cl.now + time.Duration(10+cl.sched.Int(30))*time.Millisecond, kind: evByz, fn: b.starveAct})
	if s == nil {
		return
	}
	if s.script == "relock" || s.script == "round-skip" {
		b.starveAct2()
		return
	}
	for _, h := range cl.honest() {
		if !h.alive || h.failed {
			continue
		}
		rs := h.roundState()
		if rs.Height != s.H {
			continue
		}
		idx, _ := rs.Validators.GetByAddress(b.n.key.Address())
		if idx < 0 {
			continue
		}
		size := rs.Validators.Size()
		// a functioning proposer at its turns (the same block for everybody)
		if bytesEqual(rs.Validators.GetProposer().Address, b.n.key.Address()) && rs.Proposal == nil && rs.Step <= 3 {
			key := keyOf(h.idx, rs.Height, rs.Round, 0, "starve-prop")
			if !b.done[key] {
				b.done[key] = true
				if blk, _ := b.buildBlock(h, rs, 7+rs.Round); blk != nil {
					b.sendBlock(h, rs.Height, rs.Round, blk, "adversary-block")
				}
			}
		}
		// nil votes in the two starved rounds so that everybody sees +2/3 of any
		for r := s.r0; r <= s.r0+1 && r <= rs.Round; r++ {
			for _, typ := range []byte{types.VoteTypePrevote, types.VoteTypePrecommit} {
				key := keyOf(h.idx, rs.Height, r, typ, "starve-nil")
				if b.done[key] {
					continue
				}
				b.done[key] = true
				if v := b.signVote(rs.Height, r, typ, types.BlockID{}, size, idx); v != nil {
					cl.c.Fault("adversary-nil-vote")
					cl.send(b.n.idx, h.idx, voteMsg(v), "adversary-nil")
				}
			}
		}
	}
	// release the old proof-of-lock to the victim once it has moved on
	if !s.released {
		v := cl.nodes[s.victim]
		if v.alive && !v.failed {
			rs := v.roundState()
			if rs.Height > s.H {
				s.released = true
			} else if rs.Height == s.H && rs.Round >= s.releaseR {
				s.released = true
				if rs.LockedBlock != nil {
					cl.c.Probe("stale-pol-released-to-locked-victim")
				}
				for _, bz := range s.held {
					cl.c.Fault("adversary-releases-withheld-prevote")
					cl.sendBytes(b.n.idx, s.victim, cs.VoteChannel, bz, "adversary-release")
				}
			}
		}
	}
}
