package cluster

import (
	"fmt"
	cstypes "github.com/lianxiangcloud/linkchain/consensus/types"
	"github.com/lianxiangcloud/linkchain/libs/ser"
	"github.com/lianxiangcloud/linkchain/types"
	"math/big"
	"os"
	"sort"
	"time"

	"verif/sim/kernel"
	"verif/sim/simnode"
)

func kernelTry(f func()) (string, string, bool) { return kernel.Try(f) }

// RunMode is the entry point of the cluster rigs: one run inside a bubble.
func RunMode(c *kernel.Ctx, mode Mode) {
	simnode.InitGlobals()
	kernel.Bubble(c, false, func() {
		cl := &Cluster{c: c, mode: mode}
		cl.cfg = drawConfig(c, mode)
		cl.net = c.Tape.Fork("net")
		cl.sched = c.Tape.Fork("sched")
		cl.fault = c.Tape.Fork("fault")
		cl.Run()
	})
}

func isBubbleDeadlock(msg string) bool {
	return len(msg) >= 8 && (contains(msg, "deadlock") || contains(msg, "blocked goroutines"))
}

func contains(s, sub string) bool {
	for i := 0; i+len(sub) <= len(s); i++ {
		if s[i:i+len(sub)] == sub {
			return true
		}
	}
	return false
}

// modeBackground schedules the workload of the run: user transactions
// submitted to honest nodes' mempools.
func (cl *Cluster) modeBackground() {
	w := cl.c.Tape.Fork("workload")
	ntx := w.Range(0, 6)
	nonces := map[int]uint64{}
	for k := 0; k < ntx; k++ {
		ui := w.Int(4)
		nonce := nonces[ui]
		nonces[ui]++
		to := userAddr((ui + 1 + w.Int(3)) % 4)
		amt := big.NewInt(int64(1 + w.Int(1000)))
		at := time.Duration(w.Range(0, 3000)) * time.Millisecond
		cl.push(&event{at: at, kind: evHostile, fn: func() {
			tx, err := userKey(ui).transfer(nonce, to, amt)
			if err != nil {
				return
			}
			// every honest node's mempool receives the transaction (tx gossip is not simulated)
			for _, n := range cl.honest() {
				if n.alive && !n.failed {
					n.chain.RegisterRate()
					n.chain.Mempool.AddTx("", tx)
				}
			}
			cl.c.Probe("tx-submitted")
		}})
	}
}

func (cl *Cluster) modeCheck(e *event) {
	c := cl.c
	if cl.mode == ModeProposer {
		cl.proposerCheck()
		return
	}
	if cl.mode == ModeParts {
		cl.partsCheck()
		return
	}
	if cl.mode != ModeValidation {
		return
	}
	for _, n := range cl.honest() {
		if n.killReq && !n.killSeen {
			n.killSeen = true
			name := "honest-block"
			if rs := n.roundState(); rs.ProposalBlock != nil {
				if nm, bad := cl.orc.badByHash(rs.ProposalBlock); bad {
					name = nm
				}
			}
			stored, status := n.chain.BlockStore.Height(), n.cs.GetState().LastBlockHeight
			c.Violate("abort-on-committed-block", "C02/abort/"+name, "node %d could not apply a block that gathered a commit (%s) and asked to be killed; block store height %d, consensus status height %d: %s", n.idx, name, stored, status, n.failMsg)
		}
	}
}

// finish records what the run reached.
func (cl *Cluster) finish() {
	c := cl.c
	minH := uint64(1 << 62)
	for _, n := range cl.honest() {
		h := uint64(0)
		if n.chain != nil {
			h = n.chain.BlockStore.Height()
		}
		if h < minH {
			minH = h
		}
	}
	if minH >= 2 {
		c.NonTrivial()
	}
	if cl.mode == ModeValidation && cl.catAt > 0 {
		since := cl.catAt
		if cl.cfg.GST > since {
			since = cl.cfg.GST
		}
		stuck := -1
		for _, n := range cl.honest() {
			if n.alive && !n.failed && n.lastProg <= cl.catAt {
				stuck = n.idx
				break
			}
		}
		switch {
		case stuck < 0:
			c.Probe("progress-after-byz-turn")
		case cl.anyLeftCommitStep():
			// The stuck node learned the decision (+2/3 precommits for a block in
			// round r), entered the commit step to wait for the block, and then left
			// it again: +2/3 nil precommits of round r+1 (legal: locked validators
			// that have not seen the round-r majority yet precommit nil) make addVote
			// call enterNewRound(r+2), whose guard does not know the commit step.
			// From then on the block's parts are ignored (tryFinalizeCommit runs only
			// in the commit step) and the node never commits: a liveness defect that
			// needs no Byzantine proposer and no hostile peer, outside the statements
			// of C02 and C16 (DESIGN.md, section 11). Not attributed here.
			c.Probe("stuck-after-leaving-commit-step-not-judged")
		case cl.recoverSeen:
			// Recover mode can deadlock without any Byzantine help: locks taken
			// before the switch survive it, while the locked block (Recover=0) can
			// no longer be proposed (ProposalBlock.Recover != cs.recover) and the
			// vote sets were reset, so locked and unlocked nodes never meet on one
			// prevote again. That is a liveness defect of recover mode, outside the
			// statement of C02 (DESIGN.md, section 11): the wedge is not attributed
			// to the Byzantine proposer here.
			c.Probe("stuck-in-recover-mode-not-judged")
		case cl.now-since >= 90*time.Second:
			c.Violate("wedged", "C02/wedge", "node %d committed nothing in %v of fault-free virtual time after a Byzantine proposer's invalid block", stuck, cl.now-since)
		default:
			c.Probe("liveness-inconclusive")
		}
	}
	if cl.mode == ModeHostile && cl.hostileAt > 0 {
		since := cl.hostileAt
		if cl.cfg.GST > since {
			since = cl.cfg.GST
		}
		stuck := -1
		for _, n := range cl.honest() {
			if n.alive && !n.failed && n.lastProg <= cl.hostileAt {
				stuck = n.idx
				break
			}
		}
		switch {
		case stuck < 0:
			c.Probe("progress-after-hostile-traffic")
		case cl.anyLeftCommitStep():
			c.Probe("stuck-after-leaving-commit-step-not-judged") // see the validation mode above
		case cl.recoverSeen:
			c.Probe("stuck-in-recover-mode-not-judged") // see the validation mode above
		case cl.now-since >= 90*time.Second:
			c.Violate("halted", "C16/halted", "node %d committed nothing in %v of quiet virtual time after hostile peer traffic", stuck, cl.now-since)
		default:
			c.Probe("liveness-inconclusive")
		}
	}
	if minH < uint64(cl.cfg.Heights) {
		c.Probe("stalled-before-target")
	}
	for _, n := range cl.honest() {
		if n.alive && n.cs != nil && n.cs.VerifStepRecover() {
			c.Probe("node-in-recover-mode-at-end")
		}
	}
	if cl.recoverSeen {
		c.Probe("recover-mode-entered")
	}
	if cl.orc.probesRoundGt0 > 0 {
		c.Probe("vote-in-round-gt0")
	}
	for h := uint64(1); h <= uint64(len(cl.orc.commits))+1; h++ {
		hks := make([]string, 0, 2)
		for hk := range cl.orc.commits[h] {
			hks = append(hks, hk)
		}
		sort.Strings(hks)
		c.Finger(h, hks)
	}
	c.Finger(cl.events, cl.now)
	var final []string
	for _, n := range cl.honest() {
		if n.cs != nil {
			rs := n.roundState()
			final = append(final, fmt.Sprintf("node%d alive=%v failed=%v H=%d R=%d S=%v store=%d proposal=%v block=%v locked=%v recover-mode=%v recover-count=%d locked-round=%d", n.idx, n.alive, n.failed, rs.Height, rs.Round, rs.Step, n.chain.BlockStore.Height(), rs.Proposal != nil, rs.ProposalBlock != nil, rs.LockedBlock != nil, n.cs.VerifStepRecover(), n.cs.VerifRecoverCount(), rs.LockedRound))
			if os.Getenv("VERIF_DEBUG") != "" && rs.Votes != nil {
				final = append(final, rs.Votes.StringIndented("    "))
			}
		}
	}
	sample := map[string]interface{}{
		"final":      final,
		"config":     cl.cfg,
		"events":     cl.events,
		"sim_ms":     cl.now.Milliseconds(),
		"min_height": minH,
	}
	if c.Failed() || len(cl.trace) > 0 {
		tr := cl.trace
		if len(tr) > 60 {
			tr = tr[len(tr)-60:]
		}
		sample["trace_tail"] = tr
	}
	c.Sample(sample)
}

// proposerCheck is the cluster part of C17: correct nodes at the same height
// and round agree on the proposer however they got there, and a correct
// proposer's account of the previous height's rounds (FaultValidatorsEvidence)
// is accepted by every correct node.
func (cl *Cluster) proposerCheck() {
	c := cl.c
	type hr struct {
		H uint64
		R int
	}
	seen := map[hr]string{}
	who := map[hr]int{}
	for _, n := range cl.honest() {
		if !n.alive || n.failed || n.cs == nil {
			continue
		}
		rs := n.roundState()
		if n.cs.VerifStepRecover() || rs.Validators == nil {
			continue
		}
		k := hr{rs.Height, rs.Round}
		p := hexOf(rs.Validators.GetProposer().Address)
		c.Evals(1)
		if rs.Round > 0 {
			c.Probe("proposer-compared-at-round>0")
		}
		if q, ok := seen[k]; ok && q != p {
			c.Violate("proposer-disagreement", "C17/proposer-disagreement", "nodes %d and %d are both at H=%d R=%d but expect different proposers (%s vs %s)", who[k], n.idx, k.H, k.R, q[:8], p[:8])
			return
		}
		seen[k], who[k] = p, n.idx
		if n.fveRejected != "" {
			msg := n.fveRejected
			n.fveRejected = ""
			if rs.ProposalBlockParts != nil {
				if from, ok := cl.orc.honestProposals[rs.ProposalBlockParts.Header().String()]; ok {
					c.Violate("honest-evidence-rejected", "C17/honest-fault-validators-evidence-rejected", "node %d rejected the FaultValidatorsEvidence of a block proposed by correct node %d at H=%d: %s", n.idx, from, rs.Height, msg)
					return
				}
			}
			c.Probe("byzantine-fault-validators-evidence-rejected")
		}
	}
}

// anyLeftCommitStep: some correct node knows a commit round for its current
// height but is not in the commit step (see finish); the others may be stuck
// merely because they need that node's power.
func (cl *Cluster) anyLeftCommitStep() bool {
	for _, n := range cl.honest() {
		if n.cs == nil || !n.alive || n.failed {
			continue
		}
		if rs := n.roundState(); rs.CommitRound >= 0 && rs.Step < cstypes.RoundStepCommit {
			return true
		}
	}
	return false
}

// partsCheck is the node-level part of C12: whatever block a correct node holds
// as its proposal block, assembled from the parts it received, is the block
// those bytes encode: decoding the completed part set afresh gives a block with
// the same hash, the hash the block reports is the hash of its own header, and
// it is the hash the part set was announced for when the node knows one
// (proposal or +2/3 majority). Checked whenever a node's (proposal block, part
// set) pair changes.
func (cl *Cluster) partsCheck() {
	c := cl.c
	if cl.partsSeen == nil {
		cl.partsSeen = map[int]string{}
	}
	for _, n := range cl.honest() {
		if !n.alive || n.failed || n.cs == nil {
			continue
		}
		rs := n.roundState()
		if rs.ProposalBlock == nil || rs.ProposalBlockParts == nil || !rs.ProposalBlockParts.IsComplete() {
			continue
		}
		sig := fmt.Sprintf("%p|%x|%d", rs.ProposalBlock, rs.ProposalBlockParts.Header().Hash, rs.ProposalBlockParts.Header().Total)
		if cl.partsSeen[n.idx] == sig {
			continue
		}
		cl.partsSeen[n.idx] = sig
		c.Evals(1)
		var fresh *types.Block
		var derr error
		if _, _, panicked := kernelTry(func() {
			_, derr = ser.DecodeReader(rs.ProposalBlockParts.GetReader(), &fresh, int64(rs.ProposalBlockParts.Header().Total)*int64(cl.cfg.PartSize)+1024)
		}); panicked || derr != nil || fresh == nil {
			// a complete, proof-checked part set whose bytes do not decode: the
			// proposer's doing (Byzantine proposers sign what they like)
			c.Probe("complete-part-set-does-not-decode")
			continue
		}
		held := rs.ProposalBlock.Hash()
		if fresh.Hash() != held {
			c.Violate("assembled-block", "C12/node/assembled-block-hash-differs-from-its-bytes", "node %d at H=%d R=%d holds a proposal block that reports hash %x, but the completed part set it was assembled from (parts hash %x, %d parts) decodes to a block with hash %x: the block object is not the bytes received", n.idx, rs.Height, rs.Round, held.Bytes()[:6], rs.ProposalBlockParts.Header().Hash[:6], rs.ProposalBlockParts.Header().Total, fresh.Hash().Bytes()[:6])
			return
		}
		if rs.ProposalBlock.Header.Hash() != held {
			c.Violate("assembled-block", "C12/node/block-hash-differs-from-header-hash", "node %d at H=%d R=%d: Block.Hash() %x differs from the hash of the block's own header %x", n.idx, rs.Height, rs.Round, held.Bytes()[:6], rs.ProposalBlock.Header.Hash().Bytes()[:6])
			return
		}
		c.Probe("assembled-block-checked")
		if rs.LockedBlock != nil && rs.LockedBlock != rs.ProposalBlock {
			c.Probe("assembled-while-holding-another-locked-block")
		}
	}
}
