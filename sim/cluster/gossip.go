package cluster

import (
	"fmt"
	"time"

	cs "github.com/lianxiangcloud/linkchain/consensus"
	cstypes "github.com/lianxiangcloud/linkchain/consensus/types"
	"github.com/lianxiangcloud/linkchain/types"
)

// gossip is the stand-in for the reactor's gossipDataRoutine /
// gossipVotesRoutine (stub, declared in the evidence): node `from` offers node
// `to` what it has and `to` lacks — proposal, block parts, votes of the
// current height, last-commit precommits, and for a lagging peer the stored
// commit and block parts. Messages still pass through the network fates.
func (cl *Cluster) gossip(from, to int) {
	cfg := cl.cfg
	defer func() {
		jitter := time.Duration(cl.sched.Int(cfg.GossipMs/2+1)) * time.Millisecond
		cl.push(&event{at: cl.now + time.Duration(cfg.GossipMs)*time.Millisecond + jitter, kind: evGossip, from: from, node: to})
	}()
	a := cl.nodes[from]
	if !a.alive || a.failed {
		return
	}
	budget := 12
	ars := a.roundState()

	// what does the destination have?
	var brs *cstypes.RoundState
	var bHeight uint64
	if cl.isByz(to) {
		// Byzantine actors are omniscient; no need to feed them
		return
	}
	b := cl.nodes[to]
	if !b.alive || b.failed {
		return
	}
	brs = b.roundState()
	bHeight = brs.Height

	switch {
	case bHeight == ars.Height:
		// proposal of the same round
		if ars.Proposal != nil && brs.Proposal == nil && ars.Round == brs.Round {
			cl.send(from, to, &cs.ProposalMessage{Proposal: ars.Proposal}, "gossip-proposal")
			budget--
		}
		// block parts the peer is collecting
		if ars.ProposalBlockParts != nil && brs.ProposalBlockParts != nil &&
			ars.ProposalBlockParts.HasHeader(brs.ProposalBlockParts.Header()) && !brs.ProposalBlockParts.IsComplete() {
			budget -= cl.gossipParts(from, to, brs.Height, brs.Round, ars.ProposalBlockParts, brs.ProposalBlockParts, budget)
		}
		// votes of this height the peer lacks
		if ars.Votes != nil && brs.Votes != nil {
			maxR := ars.Round
			if brs.Round > maxR {
				maxR = brs.Round
			}
			for r := 0; r <= maxR && budget > 0; r++ {
				for _, typ := range []byte{types.VoteTypePrevote, types.VoteTypePrecommit} {
					var avs, bvs *types.VoteSet
					if typ == types.VoteTypePrevote {
						avs, bvs = ars.Votes.Prevotes(r), brs.Votes.Prevotes(r)
					} else {
						avs, bvs = ars.Votes.Precommits(r), brs.Votes.Precommits(r)
					}
					if avs == nil {
						continue
					}
					// a peer-claimed majority (the stand-in for queryMaj23Routine +
					// the vote-set-bits exchange): lets the peer count a Byzantine
					// validator's vote for the majority block although it already
					// holds a conflicting one
					if x, ok := avs.TwoThirdsMajority(); ok && !x.IsZero() {
						cl.claimMaj23(from, to, ars.Height, r, typ, x)
						has := avs.BitArrayByBlockID(x)
						var lacks interface{ GetIndex(int) bool }
						if bvs != nil {
							if ba := bvs.BitArrayByBlockID(x); ba != nil {
								lacks = ba
							}
						}
						for i := 0; has != nil && i < avs.Size() && budget > 0; i++ {
							if !has.GetIndex(i) || (lacks != nil && lacks.GetIndex(i)) {
								continue
							}
							if v := avs.GetByIndex(i); v != nil && v.BlockID.Equals(x) && bvs != nil && bvs.GetByIndex(i) != nil {
								// the peer holds some other vote of this validator
								cl.send(from, to, &cs.VoteMessage{Vote: v}, "gossip-vote-maj23")
								budget--
							}
						}
					}
					for i := 0; i < avs.Size() && budget > 0; i++ {
						v := avs.GetByIndex(i)
						if v == nil {
							continue
						}
						if bvs != nil && bvs.GetByIndex(i) != nil {
							continue
						}
						cl.send(from, to, &cs.VoteMessage{Vote: v}, "gossip-vote")
						budget--
					}
				}
			}
		}
		// last-commit precommits while the peer waits in NewHeight
		if brs.Step == cstypes.RoundStepNewHeight && ars.LastCommit != nil && brs.LastCommit != nil {
			for i := 0; i < ars.LastCommit.Size() && budget > 0; i++ {
				v := ars.LastCommit.GetByIndex(i)
				if v != nil && brs.LastCommit.GetByIndex(i) == nil {
					cl.send(from, to, &cs.VoteMessage{Vote: v}, "gossip-lastcommit")
					budget--
				}
			}
		}
	case bHeight < ars.Height:
		// catch-up: the stored commit for the peer's height, then the stored parts
		cl.c.Probe("catchup-gossip")
		var commit *types.Commit
		if bHeight+1 == ars.Height && ars.LastCommit != nil {
			commit = ars.LastCommit.MakeCommit()
		} else {
			commit = a.chain.App.LoadBlockCommit(bHeight)
		}
		if commit != nil && commit.FirstPrecommit() != nil {
			cl.claimMaj23(from, to, bHeight, commit.Round(), types.VoteTypePrecommit, commit.BlockID)
			for i, v := range commit.Precommits {
				if v == nil || budget <= 0 {
					continue
				}
				if brs.Votes != nil {
					if bvs := brs.Votes.Precommits(v.Round); bvs != nil {
						if ba := bvs.BitArrayByBlockID(v.BlockID); ba != nil && ba.GetIndex(i) {
							continue
						}
						if old := bvs.GetByIndex(i); old != nil && old.BlockID.Equals(v.BlockID) {
							continue
						}
					}
				}
				cl.send(from, to, &cs.VoteMessage{Vote: v}, "catchup-precommit")
				budget--
			}
		}
		if brs.ProposalBlockParts != nil && !brs.ProposalBlockParts.IsComplete() {
			meta := a.chain.App.LoadBlockMeta(bHeight)
			if meta != nil && brs.ProposalBlockParts.HasHeader(meta.BlockID.PartsHeader) {
				for i := 0; i < meta.BlockID.PartsHeader.Total && budget > 0; i++ {
					if brs.ProposalBlockParts.GetPart(i) != nil {
						continue
					}
					part := a.chain.App.LoadBlockPart(bHeight, i)
					if part == nil {
						continue
					}
					cl.send(from, to, &cs.BlockPartMessage{Height: bHeight, Round: brs.Round, Part: part}, "catchup-part")
					budget--
				}
			}
		}
	}
}

// claimMaj23 sends a VoteSetMaj23Message once per (pair, height, round, type, block).
func (cl *Cluster) claimMaj23(from, to int, H uint64, R int, typ byte, id types.BlockID) {
	key := fmt.Sprintf("%d>%d|%d|%d|%d|%s", from, to, H, R, typ, blockKey(id))
	if cl.claimed == nil {
		cl.claimed = map[string]time.Duration{}
	}
	if at, ok := cl.claimed[key]; ok && cl.now-at < 2*time.Second {
		return
	}
	cl.claimed[key] = cl.now
	cl.c.Probe("maj23-claim")
	cl.send(from, to, &cs.VoteSetMaj23Message{Height: H, Round: R, Type: typ, BlockID: id}, "maj23")
}

func (cl *Cluster) gossipParts(from, to int, height uint64, round int, have, want *types.PartSet, budget int) int {
	sent := 0
	for i := 0; i < have.Total() && sent < budget; i++ {
		if want.GetPart(i) != nil {
			continue
		}
		p := have.GetPart(i)
		if p == nil {
			continue
		}
		cl.send(from, to, &cs.BlockPartMessage{Height: height, Round: round, Part: p}, "gossip-part")
		sent++
	}
	return sent
}
