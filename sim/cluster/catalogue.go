package cluster

import (
	"fmt"
	"time"

	cstypes "github.com/lianxiangcloud/linkchain/consensus/types"
	"github.com/lianxiangcloud/linkchain/libs/common"
	"github.com/lianxiangcloud/linkchain/libs/crypto"
	"github.com/lianxiangcloud/linkchain/libs/ser"
	"github.com/lianxiangcloud/linkchain/types"
)

// The C02 corruption catalogue. Every entry takes a fully valid,
// application-valid block (built by buildBlock) and makes it invalid against
// exactly the list in the property statement — chain id, height, previous
// block id, transaction totals, validator-set and parameter hashes, internal
// hash consistency, a previous commit with > 2/3 correctly signed precommits,
// well-formed evidence — while leaving everything the application executes
// (height, time, coinbase, gas limit, transactions) untouched, so application
// level execution stays valid. Each entry is invalid BY CONSTRUCTION; the
// implementation's own validateBlock is not consulted as the oracle.

type catEntry struct {
	name string
	// minHeight: entries about LastCommit/evidence need a previous commit
	minHeight uint64
	onlyH1    bool
	apply     func(b *byzActor, blk *types.Block, rs *cstypes.RoundState) bool
}

func flipHash(h common.Hash) common.Hash {
	h[0] ^= 0x5a
	h[31] ^= 0xa5
	return h
}

// freshCommit returns a commit with the given precommits and no cached hash.
func freshCommit(id types.BlockID, pcs []*types.Vote) *types.Commit {
	return &types.Commit{BlockID: id, Precommits: pcs}
}

func copyVotes(in []*types.Vote) []*types.Vote {
	out := make([]*types.Vote, len(in))
	for i, v := range in {
		if v != nil {
			c := *v
			out[i] = &c
		}
	}
	return out
}

func setCommit(blk *types.Block, c *types.Commit) {
	blk.LastCommit = c
	blk.LastCommitHash = c.Hash()
}

func setEvidence(blk *types.Block, evs []types.Evidence) {
	blk.Evidence = types.EvidenceData{Evidence: evs}
	blk.EvidenceHash = blk.Evidence.Hash()
}

func catalogue() []catEntry {
	return []catEntry{
		{name: "chain-id", apply: func(b *byzActor, blk *types.Block, rs *cstypes.RoundState) bool {
			blk.ChainID = blk.ChainID + "-other"
			return true
		}},
		{name: "total-txs", apply: func(b *byzActor, blk *types.Block, rs *cstypes.RoundState) bool {
			blk.TotalTxs += 7
			return true
		}},
		{name: "last-block-id-hash", apply: func(b *byzActor, blk *types.Block, rs *cstypes.RoundState) bool {
			blk.LastBlockID.Hash = flipHash(blk.LastBlockID.Hash)
			return true
		}},
		{name: "last-block-id-parts", apply: func(b *byzActor, blk *types.Block, rs *cstypes.RoundState) bool {
			blk.LastBlockID.PartsHeader.Total += 3
			return true
		}},
		{name: "last-commit-hash-mismatch", apply: func(b *byzActor, blk *types.Block, rs *cstypes.RoundState) bool {
			blk.LastCommitHash = flipHash(blk.LastCommitHash)
			return true
		}},
		{name: "validators-hash", apply: func(b *byzActor, blk *types.Block, rs *cstypes.RoundState) bool {
			blk.ValidatorsHash = flipHash(blk.ValidatorsHash)
			return true
		}},
		{name: "recover-flag-with-wrong-validators-hash", apply: func(b *byzActor, blk *types.Block, rs *cstypes.RoundState) bool {
			// Header.Recover is not covered by the block hash and waives the
			// validators-hash comparison: in normal mode such a block must never be
			// voted for
			if b.cl.cfg.LongStall > 0 || b.cl.recoverSeen {
				return false // in recover mode the waiver is the design
			}
			blk.ValidatorsHash = flipHash(blk.ValidatorsHash)
			blk.Recover = 1
			return true
		}},
		{name: "consensus-params-hash", apply: func(b *byzActor, blk *types.Block, rs *cstypes.RoundState) bool {
			blk.ConsensusHash = flipHash(blk.ConsensusHash)
			return true
		}},
		{name: "evidence-hash-mismatch", apply: func(b *byzActor, blk *types.Block, rs *cstypes.RoundState) bool {
			blk.EvidenceHash = flipHash(blk.EvidenceHash)
			return true
		}},
		{name: "h1-nonempty-last-commit", onlyH1: true, apply: func(b *byzActor, blk *types.Block, rs *cstypes.RoundState) bool {
			idx, _ := rs.Validators.GetByAddress(b.n.key.Address())
			id := fakeBlockID("h0")
			v := b.signVote(blk.Height-1, 0, types.VoteTypePrecommit, id, rs.Validators.Size(), idx)
			pcs := make([]*types.Vote, rs.Validators.Size())
			pcs[idx] = v
			setCommit(blk, freshCommit(id, pcs))
			return true
		}},
		{name: "last-commit-under-quorum", minHeight: 2, apply: func(b *byzActor, blk *types.Block, rs *cstypes.RoundState) bool {
			// keep the heaviest subset of the precommits whose power is still
			// <= 2/3 of the previous validators (so that "exactly two thirds",
			// also in the integer arithmetic of total*2/3, is offered whenever the
			// powers allow it)
			pcs := copyVotes(blk.LastCommit.Precommits)
			total := rs.LastValidators.TotalVotingPower()
			var present []int
			for i, v := range pcs {
				if v != nil {
					present = append(present, i)
				}
			}
			if len(present) == 0 || len(present) > 16 {
				return false
			}
			best, bestPower := -1, int64(-1)
			for mask := 1; mask < 1<<uint(len(present)); mask++ {
				var have int64
				for k, i := range present {
					if mask&(1<<uint(k)) != 0 {
						_, val := rs.LastValidators.GetByIndex(i)
						have += val.VotingPower
					}
				}
				if 3*have <= 2*total && have > bestPower {
					best, bestPower = mask, have
				}
			}
			if best < 0 {
				return false
			}
			for k, i := range present {
				if best&(1<<uint(k)) == 0 {
					pcs[i] = nil
				}
			}
			if bestPower == total*2/3 {
				b.cl.c.Probe("catalogue-last-commit-at-integer-two-thirds")
			}
			setCommit(blk, freshCommit(blk.LastCommit.BlockID, pcs))
			return true
		}},
		{name: "last-commit-one-validator-in-every-slot", minHeight: 2, apply: func(b *byzActor, blk *types.Block, rs *cstypes.RoundState) bool {
			// the proposer's own correctly signed precommit for the previous block,
			// replicated into every slot (the index is outside the sign bytes): one
			// validator's power, whatever the slots say
			idx, _ := rs.LastValidators.GetByAddress(b.n.key.Address())
			if idx < 0 || blk.LastCommit == nil || len(blk.LastCommit.Precommits) < 2 {
				return false
			}
			first := blk.LastCommit.FirstPrecommit()
			if first == nil {
				return false
			}
			own := b.signVote(blk.Height-1, first.Round, types.VoteTypePrecommit, blk.LastCommit.BlockID, rs.LastValidators.Size(), idx)
			if own == nil {
				return false
			}
			pcs := make([]*types.Vote, len(blk.LastCommit.Precommits))
			for i := range pcs {
				cp := *own
				cp.ValidatorIndex = i
				pcs[i] = &cp
			}
			setCommit(blk, freshCommit(blk.LastCommit.BlockID, pcs))
			return true
		}},
		{name: "last-commit-all-nil", minHeight: 2, apply: func(b *byzActor, blk *types.Block, rs *cstypes.RoundState) bool {
			pcs := make([]*types.Vote, len(blk.LastCommit.Precommits))
			setCommit(blk, freshCommit(blk.LastCommit.BlockID, pcs))
			// a commit without any precommit cannot carry its own evidence either
			return true
		}},
		{name: "last-commit-empty", minHeight: 2, apply: func(b *byzActor, blk *types.Block, rs *cstypes.RoundState) bool {
			setCommit(blk, freshCommit(blk.LastCommit.BlockID, []*types.Vote{}))
			return true
		}},
		{name: "last-commit-bad-signature", minHeight: 2, apply: func(b *byzActor, blk *types.Block, rs *cstypes.RoundState) bool {
			pcs := copyVotes(blk.LastCommit.Precommits)
			// corrupt enough honest signatures that the correctly signed rest is <= 2/3
			total := rs.LastValidators.TotalVotingPower()
			var good int64
			for i, v := range pcs {
				if v != nil {
					_, val := rs.LastValidators.GetByIndex(i)
					good += val.VotingPower
				}
			}
			for i, v := range pcs {
				if 3*good <= 2*total {
					break
				}
				if v != nil {
					ed, ok := v.Signature.(crypto.SignatureEd25519)
					if !ok {
						return false
					}
					ed[5] ^= 0x01
					v.Signature = ed
					_, val := rs.LastValidators.GetByIndex(i)
					good -= val.VotingPower
				}
			}
			if 3*good > 2*total {
				return false
			}
			setCommit(blk, freshCommit(blk.LastCommit.BlockID, pcs))
			return true
		}},
		{name: "last-commit-transplanted-signature", minHeight: 2, apply: func(b *byzActor, blk *types.Block, rs *cstypes.RoundState) bool {
			pcs := copyVotes(blk.LastCommit.Precommits)
			// every slot gets the signature of one donor: at most the donor's own power is correctly signed
			var donor *types.Vote
			for _, v := range pcs {
				if v != nil {
					donor = v
					break
				}
			}
			if donor == nil {
				return false
			}
			n := 0
			for _, v := range pcs {
				if v != nil && v != donor {
					v.Signature = donor.Signature
					n++
				}
			}
			if n == 0 {
				return false
			}
			// the donor alone must not be > 2/3
			_, val := rs.LastValidators.GetByIndex(donor.ValidatorIndex)
			if val == nil || 3*val.VotingPower > 2*rs.LastValidators.TotalVotingPower() {
				return false
			}
			setCommit(blk, freshCommit(blk.LastCommit.BlockID, pcs))
			return true
		}},
		{name: "last-commit-extra-slot", minHeight: 2, apply: func(b *byzActor, blk *types.Block, rs *cstypes.RoundState) bool {
			pcs := append(copyVotes(blk.LastCommit.Precommits), nil)
			setCommit(blk, freshCommit(blk.LastCommit.BlockID, pcs))
			return true
		}},
		{name: "last-commit-wrong-type-vote", minHeight: 2, apply: func(b *byzActor, blk *types.Block, rs *cstypes.RoundState) bool {
			// the Byzantine validator's own slot carries a correctly signed PREVOTE
			pcs := copyVotes(blk.LastCommit.Precommits)
			idx, _ := rs.LastValidators.GetByAddress(b.n.key.Address())
			if idx < 0 || idx >= len(pcs) {
				return false
			}
			fp := blk.LastCommit.FirstPrecommit()
			pcs[idx] = b.signVote(fp.Height, fp.Round, types.VoteTypePrevote, blk.LastCommit.BlockID, rs.LastValidators.Size(), idx)
			setCommit(blk, freshCommit(blk.LastCommit.BlockID, pcs))
			return true
		}},
		{name: "last-commit-mixed-round", minHeight: 2, apply: func(b *byzActor, blk *types.Block, rs *cstypes.RoundState) bool {
			pcs := copyVotes(blk.LastCommit.Precommits)
			idx, _ := rs.LastValidators.GetByAddress(b.n.key.Address())
			if idx < 0 || idx >= len(pcs) {
				return false
			}
			fp := blk.LastCommit.FirstPrecommit()
			pcs[idx] = b.signVote(fp.Height, fp.Round+1, types.VoteTypePrecommit, blk.LastCommit.BlockID, rs.LastValidators.Size(), idx)
			setCommit(blk, freshCommit(blk.LastCommit.BlockID, pcs))
			return true
		}},
		{name: "evidence-missing-fault-validators", minHeight: 2, apply: func(b *byzActor, blk *types.Block, rs *cstypes.RoundState) bool {
			if b.cl.cfg.LongStall > 0 || b.cl.recoverSeen {
				// the block after a recover block legitimately carries no account of
				// the previous height's rounds: not invalid by the statement there
				return false
			}
			setEvidence(blk, nil)
			return true
		}},
		{name: "h1-fault-validators-evidence", onlyH1: true, apply: func(b *byzActor, blk *types.Block, rs *cstypes.RoundState) bool {
			// the first block has no previous height to give an account of
			fvi := &types.FaultValidatorsEvidence{BlockHeight: blk.Height - 1, Round: 0, Proposer: rs.Validators.GetProposer().PubKey}
			setEvidence(blk, []types.Evidence{fvi})
			return true
		}},
		{name: "evidence-two-fault-validators", minHeight: 2, apply: func(b *byzActor, blk *types.Block, rs *cstypes.RoundState) bool {
			if b.cl.cfg.LongStall > 0 || b.cl.recoverSeen {
				// the block after a recover block legitimately carries no account of
				// the previous height's rounds: not invalid by the statement there
				return false
			}
			evs := blk.Evidence.Evidence
			if len(evs) == 0 {
				return false
			}
			setEvidence(blk, append(append([]types.Evidence(nil), evs...), evs[0]))
			return true
		}},
		{name: "evidence-wrong-fault-validators", minHeight: 2, apply: func(b *byzActor, blk *types.Block, rs *cstypes.RoundState) bool {
			if b.cl.cfg.LongStall > 0 || b.cl.recoverSeen {
				// the block after a recover block legitimately carries no account of
				// the previous height's rounds: not invalid by the statement there
				return false
			}
			for _, ev := range blk.Evidence.Evidence {
				if f, ok := ev.(*types.FaultValidatorsEvidence); ok {
					nf := *f
					// claim the Byzantine validator proposed the last block although the
					// schedule says otherwise
					if nf.Proposer.Equals(b.n.key.PubKey()) {
						return false
					}
					nf.Proposer = b.n.key.PubKey()
					setEvidence(blk, []types.Evidence{&nf})
					return true
				}
			}
			return false
		}},
		{name: "evidence-malformed-duplicate-vote", minHeight: 2, apply: func(b *byzActor, blk *types.Block, rs *cstypes.RoundState) bool {
			// "duplicate vote" evidence whose two votes are the same vote: not an equivocation
			idx, _ := rs.LastValidators.GetByAddress(b.n.key.Address())
			if idx < 0 {
				return false
			}
			v := b.signVote(blk.Height-1, 0, types.VoteTypePrevote, fakeBlockID("dve"), rs.LastValidators.Size(), idx)
			dve := &types.DuplicateVoteEvidence{PubKey: b.n.key.PubKey(), VoteA: v, VoteB: v}
			setEvidence(blk, append(append([]types.Evidence(nil), blk.Evidence.Evidence...), dve))
			return true
		}},
		{name: "evidence-forged-duplicate-vote", minHeight: 2, apply: func(b *byzActor, blk *types.Block, rs *cstypes.RoundState) bool {
			// accuses an honest validator with votes the accuser signed itself
			var victim *types.Validator
			vidx := -1
			for i, val := range rs.LastValidators.Validators {
				if !val.PubKey.Equals(b.n.key.PubKey()) {
					victim, vidx = val, i
					break
				}
			}
			if victim == nil {
				return false
			}
			mk := func(tag string) *types.Vote {
				v := b.signVote(blk.Height-1, 0, types.VoteTypePrevote, fakeBlockID(tag), rs.LastValidators.Size(), vidx)
				v.ValidatorAddress = victim.Address
				return v
			}
			dve := &types.DuplicateVoteEvidence{PubKey: victim.PubKey, VoteA: mk("fa"), VoteB: mk("fb")}
			setEvidence(blk, append(append([]types.Evidence(nil), blk.Evidence.Evidence...), dve))
			return true
		}},
	}
}

// corrupt re-materialises blk through its wire encoding (so no cached hash
// survives), applies entry e, and returns the corrupted block.
func (b *byzActor) corrupt(blk *types.Block, rs *cstypes.RoundState, e catEntry) *types.Block {
	bz, err := ser.EncodeToBytes(blk)
	if err != nil {
		return nil
	}
	nb := new(types.Block)
	if err := ser.DecodeBytes(bz, nb); err != nil {
		return nil
	}
	if !e.apply(b, nb, rs) {
		return nil
	}
	// once more through the wire so every volatile cache is rebuilt from the final fields
	bz, err = ser.EncodeToBytes(nb)
	if err != nil {
		return nil
	}
	out := new(types.Block)
	if err := ser.DecodeBytes(bz, out); err != nil {
		return nil
	}
	return out
}

// catalogueTurn: the Byzantine validator is proposer of node h's current round:
// it proposes one catalogue block to every honest node and votes for it.
func (b *byzActor) catalogueTurn(h *Node, rs *cstypes.RoundState) {
	cl := b.cl
	key := fmt.Sprintf("cat|%d|%d", rs.Height, rs.Round)
	if b.done[key] {
		return
	}
	b.done[key] = true
	good, _ := b.buildBlock(h, rs, 0)
	if good == nil {
		delete(b.done, key)
		return
	}
	cat := catalogue()
	var usable []catEntry
	for _, e := range cat {
		if e.onlyH1 && rs.Height != types.BlockHeightOne {
			continue
		}
		if rs.Height < e.minHeight {
			continue
		}
		usable = append(usable, e)
	}
	e := usable[cl.sched.Int(len(usable))]
	bad := b.corrupt(good, rs, e)
	if bad == nil {
		cl.c.Probe("catalogue-entry-not-applicable")
		return
	}
	parts := bad.MakePartSet(cl.cfg.PartSize)
	id := types.BlockID{Hash: bad.Hash(), PartsHeader: parts.Header()}
	cl.orc.badBlocks[blockKey(id)] = e.name
	cl.c.Fault("byz-invalid-block/" + e.name)
	cl.c.Probe("catalogue-block-proposed")
	cl.tracef("byz proposes catalogue block %s at H=%d R=%d", e.name, rs.Height, rs.Round)
	cl.catAt = cl.now
	// half of the time the proposal claims a proof-of-lock round: an earlier
	// round in which this node saw a +2/3 prevote majority (for nil is enough)
	polRound, polID := -1, types.BlockID{}
	if rs.Round > 0 && rs.Votes != nil && cl.sched.Bool(1, 2) {
		for r := rs.Round - 1; r >= 0; r-- {
			if pv := rs.Votes.Prevotes(r); pv != nil {
				if id, ok := pv.TwoThirdsMajority(); ok {
					polRound, polID = r, id
					cl.c.Probe("catalogue-proposal-with-pol-round")
					break
				}
			}
		}
	}
	for _, n := range cl.honest() {
		if n.alive && !n.failed {
			b.sendBlockPOL(n, rs.Height, rs.Round, bad, "cat", polRound, polID)
		}
	}
	// and supports it with its own votes a little later
	idx, _ := rs.Validators.GetByAddress(b.n.key.Address())
	size := rs.Validators.Size()
	H, R := rs.Height, rs.Round
	cl.push(&event{at: cl.now + 30*time.Millisecond, kind: evByz, fn: func() {
		for _, n := range cl.honest() {
			for _, typ := range []byte{types.VoteTypePrevote, types.VoteTypePrecommit} {
				if v := b.signVote(H, R, typ, id, size, idx); v != nil {
					cl.send(b.n.idx, n.idx, voteMsg(v), "cat-vote")
				}
			}
		}
	}})
}
