package cluster

import (
	"encoding/hex"
	"fmt"
	"math/big"
	"sort"

	cs "github.com/lianxiangcloud/linkchain/consensus"
	"github.com/lianxiangcloud/linkchain/libs/ser"
	"github.com/lianxiangcloud/linkchain/types"
)

// oracle holds the simulator's own records (what was delivered to whom, what
// each validator key released, what each node committed) and evaluates the
// invariants from them; it never reads tallies out of the implementation.
type oracle struct {
	cl *Cluster

	// precommits for a block released per (node, height): incarnation and block
	pcInc map[[2]uint64][]pcRec

	// validator identity -> power (static validator set in this rig)
	power map[string]int64 // hex address -> power
	total int64

	// seen[node] = votes node has been handed (delivered or own), keyed
	seen []map[voteKey]map[string]bool // voteKey -> set of validator addresses

	// released signatures per validator node
	rel map[relKey]map[string]bool // (node,kind,H,R) -> set of block keys
	// lock tracking per node incarnation: last non-nil precommit
	lock map[int]*lockRec

	commits map[uint64]map[string][]int // height -> block hash -> nodes
	blocks  map[string]*types.Block

	badBlocks map[string]string // block hash -> catalogue entry (C02)

	heightsCommitted map[int]uint64
	honestProposals  map[string]int // parts header of proposals signed by honest nodes -> proposer
	probesRoundGt0   int
}

type voteKey struct {
	H     uint64
	R     int
	Type  byte
	Block string
}

type relKey struct {
	node int
	kind string
	H    uint64
	R    int
}

type lockRec struct {
	incarn int
	H      uint64
	R      int
	block  string
}

func newOracle(cl *Cluster) *oracle {
	o := &oracle{cl: cl, power: map[string]int64{}, rel: map[relKey]map[string]bool{}, lock: map[int]*lockRec{},
		commits: map[uint64]map[string][]int{}, blocks: map[string]*types.Block{}, badBlocks: map[string]string{}, heightsCommitted: map[int]uint64{}}
	for _, v := range cl.gen.Vals {
		o.power[hexOf(v.Address())] = v.Power
		o.total += v.Power
	}
	o.seen = make([]map[voteKey]map[string]bool, cl.cfg.N)
	for i := range o.seen {
		o.seen[i] = map[voteKey]map[string]bool{}
	}
	return o
}

func hexOf(b []byte) string { return hex.EncodeToString(b) }

func blockKey(id types.BlockID) string {
	if id.IsZero() {
		return ""
	}
	return hexOf(id.Hash.Bytes()) + "|" + fmt.Sprint(id.PartsHeader.Total) + "|" + hexOf(id.PartsHeader.Hash)
}

// validVote checks the signature with the simulator's own copy of the keys.
func (o *oracle) validVote(v *types.Vote) bool {
	if v == nil || v.ValidatorIndex < 0 || v.ValidatorIndex >= len(o.cl.gen.Vals) {
		return false
	}
	addr := hexOf(v.ValidatorAddress)
	if _, ok := o.power[addr]; !ok {
		return false
	}
	var pk = o.cl.valByAddr(addr)
	if pk == nil {
		return false
	}
	return pk.PubKey().VerifyBytes(v.SignBytes(o.cl.gen.ChainID), v.Signature)
}

func (cl *Cluster) valByAddr(addr string) *valRef {
	for i := range cl.gen.Vals {
		if hexOf(cl.gen.Vals[i].Address()) == addr {
			return &valRef{cl.gen.Vals[i].PubKey()}
		}
	}
	return nil
}

type pcRec struct {
	incarn int
	block  string
}

func (o *oracle) note(node int, v *types.Vote) {
	if !o.validVote(v) {
		return
	}
	k := voteKey{v.Height, v.Round, v.Type, blockKey(v.BlockID)}
	m := o.seen[node][k]
	if m == nil {
		m = map[string]bool{}
		o.seen[node][k] = m
	}
	m[hexOf(v.ValidatorAddress)] = true
}

func (o *oracle) powerOf(set map[string]bool) int64 {
	var s int64
	for a := range set {
		s += o.power[a]
	}
	return s
}

func (o *oracle) moreThanTwoThirds(p int64) bool {
	return new(big.Int).Mul(big.NewInt(3), big.NewInt(p)).Cmp(new(big.Int).Mul(big.NewInt(2), big.NewInt(o.total))) > 0
}

// delivered: a message is about to be handed to node's Receive.
func (o *oracle) delivered(n *Node, from int, chID byte, bz []byte) {
	var msg cs.ConsensusMessage
	if err := ser.DecodeBytesWithType(bz, &msg); err != nil {
		return
	}
	if vm, ok := msg.(*cs.VoteMessage); ok && vm.Vote != nil {
		o.note(n.idx, vm.Vote)
	}
}

// own: node produced a message itself (it has been WAL-synced and handled).
func (o *oracle) own(n *Node, msg cs.ConsensusMessage) {
	if pm, ok := msg.(*cs.ProposalMessage); ok && pm.Proposal != nil {
		if o.honestProposals == nil {
			o.honestProposals = map[string]int{}
		}
		o.honestProposals[pm.Proposal.BlockPartsHeader.String()] = n.idx
	}
	if vm, ok := msg.(*cs.VoteMessage); ok && vm.Vote != nil {
		o.note(n.idx, vm.Vote)
	}
}

func (o *oracle) sent(from, to int, msg cs.ConsensusMessage) {}

// released: the validator key of node n handed out a vote signature.
func (o *oracle) released(n *Node, kind string, H uint64, R int, id types.BlockID, v *types.Vote) {
	c := o.cl.c
	bk := blockKey(id)
	rk := relKey{n.idx, kind, H, R}
	set := o.rel[rk]
	if set == nil {
		set = map[string]bool{}
		o.rel[rk] = set
	}
	if o.cl.mode == ModeSigner && n.starting && len(set) == 0 {
		c.Probe("first-signed-during-wal-replay")
	}
	set[bk] = true
	o.note(n.idx, v)
	c.Evals(1)
	if o.cl.mode == ModeSigner {
		short := bk
		if len(short) > 10 {
			short = short[:10]
		}
		o.cl.tracef("node%d (incarnation %d) released %s H=%d R=%d block=%q", n.idx, n.incarn, kind, H, R, short)
	}
	if len(set) > 1 {
		// I2: at most one prevote and one precommit per round
		if o.cl.mode == ModeSigner {
			c.Violate("double-sign", "C04/node/two-payloads-for-one-hrs/"+kind, "the validator key of node %d released two different %ss at H=%d R=%d (incarnation %d): %v", n.idx, kind, H, R, n.incarn, keysOf(set))
		} else {
			c.Violate("double-vote", fmt.Sprintf("C01/I2/%s", kind), "node %d released two different %ss at H=%d R=%d: %v", n.idx, kind, H, R, keysOf(set))
		}
		return
	}
	if o.cl.mode == ModeSigner {
		return // the other disciplines are C01's subject
	}
	if name, bad := o.badBlocks[bk]; bad && bk != "" {
		c.Violate("voted-invalid-block", "C02/vote/"+name, "node %d released a %s for catalogue-invalid block (%s) at H=%d R=%d", n.idx, kind, name, H, R)
	}
	switch kind {
	case "precommit":
		if bk != "" {
			// I3: needs > 2/3 prevotes for that block in that round, seen by this node
			pv := o.seen[n.idx][voteKey{H, R, types.VoteTypePrevote, bk}]
			if !o.moreThanTwoThirds(o.powerOf(pv)) {
				c.Violate("precommit-without-polka", "C01/I3", "node %d precommitted a block at H=%d R=%d having been handed prevotes of power %d/%d for it", n.idx, H, R, o.powerOf(pv), o.total)
			}
			o.lock[n.idx] = &lockRec{n.incarn, H, R, bk}
			if o.pcInc == nil {
				o.pcInc = map[[2]uint64][]pcRec{}
			}
			o.pcInc[[2]uint64{uint64(n.idx), H}] = append(o.pcInc[[2]uint64{uint64(n.idx), H}], pcRec{n.incarn, bk})
		}
	case "prevote":
		// I4: no prevote for another block against the own lock without a later polka
		if l := o.lock[n.idx]; l != nil && l.incarn == n.incarn && l.H == H && bk != "" && bk != l.block && R > l.R {
			ok := false
			for r := l.R + 1; r <= R && !ok; r++ {
				for k, set := range o.seen[n.idx] {
					if k.H == H && k.R == r && k.Type == types.VoteTypePrevote && k.Block != l.block && o.moreThanTwoThirds(o.powerOf(set)) {
						ok = true
						break
					}
				}
			}
			if !ok {
				c.Violate("prevote-against-lock", "C01/I4", "node %d locked a block at H=%d R=%d and prevoted another block at R=%d without a polka for anything else in between", n.idx, H, l.R, R)
			}
		}
	}
	if R > 0 {
		o.probesRoundGt0++
	}
}

func (o *oracle) releasedProposal(n *Node, p *types.Proposal) {
	rk := relKey{n.idx, "proposal", p.Height, p.Round}
	set := o.rel[rk]
	if set == nil {
		set = map[string]bool{}
		o.rel[rk] = set
	}
	set[p.BlockPartsHeader.String()+fmt.Sprint(p.POLRound)] = true
	if len(set) > 1 {
		if o.cl.mode == ModeSigner {
			o.cl.c.Violate("double-sign", "C04/node/two-payloads-for-one-hrs/proposal", "the validator key of node %d signed two different proposals at H=%d R=%d", n.idx, p.Height, p.Round)
		} else {
			o.cl.c.Violate("double-proposal", "C01/I2/proposal", "node %d signed two different proposals at H=%d R=%d", n.idx, p.Height, p.Round)
		}
	}
}

// committing: node n is about to commit block with seenCommit.
func (o *oracle) committing(n *Node, block *types.Block, seen *types.Commit) {
	c := o.cl.c
	if o.cl.mode == ModeSigner {
		return
	}
	H := block.Height
	hk := fmt.Sprintf("%x", block.Hash().Bytes())
	// I5: > 2/3 precommits for this block in one round handed to the node
	ok := false
	for k, set := range o.seen[n.idx] {
		if k.H == H && k.Type == types.VoteTypePrecommit && k.Block != "" && o.moreThanTwoThirds(o.powerOf(set)) {
			// the key includes the parts header; match on the hash prefix
			if len(k.Block) >= 0 && keyHasHash(k.Block, block) {
				ok = true
			}
		}
	}
	if !ok {
		c.Violate("commit-without-quorum", "C01/I5", "node %d commits block %s at H=%d without having been handed > 2/3 precommits for it in one round", n.idx, hk[:12], H)
	}
	if name, bad := o.badByHash(block); bad {
		c.Violate("committed-invalid-block", "C02/commit/"+name, "node %d commits catalogue-invalid block (%s) at H=%d", n.idx, name, H)
	}
}

func keyHasHash(blockKey string, b *types.Block) bool {
	h := hexOf(b.Hash().Bytes()) + "|"
	return len(blockKey) >= len(h) && blockKey[:len(h)] == h
}

func (o *oracle) badByHash(b *types.Block) (string, bool) {
	h := hexOf(b.Hash().Bytes()) + "|"
	for k, name := range o.badBlocks {
		if len(k) >= len(h) && k[:len(h)] == h {
			return name, true
		}
	}
	return "", false
}

// committed: node n committed block (CommitBlock returned nil error).
func (o *oracle) committed(n *Node, block *types.Block) {
	c := o.cl.c
	c.Evals(1)
	H := block.Height
	hk := fmt.Sprintf("%x", block.Hash().Bytes())
	m := o.commits[H]
	if m == nil {
		m = map[string][]int{}
		o.commits[H] = m
	}
	m[hk] = append(m[hk], n.idx)
	o.blocks[hk] = block
	o.heightsCommitted[n.idx] = H
	n.lastProg = o.cl.now
	o.cl.tracef("node%d committed H=%d %s", n.idx, H, hk[:10])
	if len(m) > 1 {
		// I1: agreement
		// A correct node that precommitted block A, restarted, and then
		// precommitted or committed another block at the same height has lost its
		// lock across the restart: the WAL catch-up rebuilt its vote sets without
		// the polka it had seen (a conflicting vote of an equivocator counted only
		// because of a peer's majority claim, and SetPeerMaj23 is called by the
		// reactor directly, never logged). Keyed separately (known finding).
		for idx := range o.cl.nodes {
			recs := o.pcInc[[2]uint64{uint64(idx), H}]
			for i := range recs {
				for j := i + 1; j < len(recs); j++ {
					if recs[j].incarn > recs[i].incarn && recs[j].block != recs[i].block {
						c.Violate("disagreement", "C01/I1/lock-lost-across-restart", "honest nodes committed different blocks at height %d: %v; node %d precommitted %.12s in incarnation %d and %.12s in incarnation %d of the same height: the WAL catch-up replay did not restore its lock", H, describeCommits(m), idx, recs[i].block, recs[i].incarn, recs[j].block, recs[j].incarn)
						return
					}
				}
			}
		}
		c.Violate("disagreement", "C01/I1", "honest nodes committed different blocks at height %d: %v", H, describeCommits(m))
		return
	}
	// chain linkage
	if H > 1 {
		if prev := o.commits[H-1]; prev != nil {
			for ph := range prev {
				if pb := o.blocks[ph]; pb != nil && block.ParentHash != pb.Hash() {
					c.Violate("broken-link", "C01/I1/link", "block at height %d does not link to the committed block at %d", H, H-1)
				}
			}
		}
	}
}

func (o *oracle) receivePanic(n *Node, e *event, site, msg string) {}

func describeCommits(m map[string][]int) string {
	ks := make([]string, 0, len(m))
	for k := range m {
		ks = append(ks, k)
	}
	sort.Strings(ks)
	s := ""
	for _, k := range ks {
		s += fmt.Sprintf("%s<-nodes%v ", k[:12], m[k])
	}
	return s
}

func keysOf(m map[string]bool) []string {
	ks := make([]string, 0, len(m))
	for k := range m {
		if k == "" {
			ks = append(ks, "nil")
		} else {
			ks = append(ks, k[:12])
		}
	}
	sort.Strings(ks)
	return ks
}

// checkAfterEvent evaluates the standing invariants after every event.
func (o *oracle) checkAfterEvent(e *event) {
	cl := o.cl
	c := cl.c
	if e.hostile != nil {
		n := cl.nodes[e.node]
		if n.alive && !n.failed && e.fpBefore != "" {
			// the statement of C16 is about halting and state, not about memory:
			// a large transient allocation is counted as a probe only
			if d := totalAlloc() - e.allocBefore; d > 64<<20 {
				c.Probe("large-allocation(>64MiB)-by-one-message")
			}
			if e.hostile.mustNotChg {
				if after := stateFinger(n); after != e.fpBefore {
					c.Violate("state-changed-by-invalid-input", "C16/state/"+e.hostile.name, "node %d consensus state changed by an invalid message (%s):\n  before %s\n  after  %s", n.idx, e.hostile.name, e.fpBefore, after)
				}
			}
		}
		if n.failed {
			n.failMsg = "after hostile message " + e.hostile.name + ": " + n.failMsg
		}
	}
	for _, n := range cl.honest() {
		if !n.alive {
			continue
		}
		if !cl.recoverSeen && n.cs != nil && n.cs.VerifStepRecover() {
			cl.recoverSeen = true
			cl.tracef("node%d entered recover mode", n.idx)
		}
		if n.failed {
			site := firstRepoFrame(n.failMsg)
			cl.tracef("node%d CONSENSUS FAILURE at %s", n.idx, site)
			switch cl.mode {
			case ModeValidation:
				c.Violate("consensus-failure", "C02/consensus-failure/"+site, "node %d: consensus receive routine died (recovered panic): %s", n.idx, n.failMsg)
			case ModeHostile:
				if e.hostile == nil && cl.recoverSeen {
					// A run that entered recover mode: nodes that switched and nodes that
					// did not hold different validator sets and cannot validate each
					// other's blocks ("+2/3 committed an invalid block" in finalizeCommit
					// of a node catching up). That divergence needs no peer message at all
					// (the hostile recover trigger is refused since 8652b44), so a routine
					// that dies on an HONEST event in such a run is not attributed to the
					// hostile peer; one that dies while handling a hostile message still is.
					c.Probe("consensus-failure-on-honest-event-in-recover-mode-run-not-attributed")
					c.Probe("consensus-failure-site/" + site)
					break
				}
				c.Violate("consensus-failure", "C16/consensus-failure/"+site, "node %d: consensus receive routine died (recovered panic): %s", n.idx, n.failMsg)
			default:
				// not what this property is about: the node counts as crashed
				c.Probe("consensus-failure-as-crash")
				c.Probe("consensus-failure-site/" + site)
				if len(n.failMsg) > 600 {
					cl.tracef("failure: %s", n.failMsg[:600])
				} else {
					cl.tracef("failure: %s", n.failMsg)
				}
			}
			kernelStop(n)
		}
	}
	cl.modeCheck(e)
}

func kernelStop(n *Node) {
	n.stop()
}
