package cluster

// Node-level part of C14 (ModeWALReplay): a node that crashed finds its
// consensus WAL cut at some offset or with one altered byte, and restarts. The
// consumer of the log, consensus.catchupReplay, is judged against the view the
// real decoder has of the very same bytes (the decoder itself is judged against
// what was written by rigs/walrig): everything the decoder yields behind the
// end-height marker must have been handed to the state machine, and when the
// decoder ends in a corruption error (or any error other than end-of-log) the
// restart must report it — by refusing to start (panic) or by the logged
// "Error on catchup replay" — and must not announce the log as replayed.
// Added after seeded change C14-9 (a corruption error in the last height
// treated as end of log), which no decoder-level or search-level oracle sees.

import (
	"bytes"
	"encoding/binary"
	"fmt"
	"io"
	"os"
	"path/filepath"
	"time"

	cs "github.com/lianxiangcloud/linkchain/consensus"
)

type replayJudge struct {
	kind      string // none | flip-last-height | cut | flip-earlier-height
	marker    uint64 // height of the last completely written end-height marker in the head file
	markerEnd int    // offset behind that marker
	nrec      int    // complete records behind the marker in the undamaged log
	rec       int    // damaged record behind the marker (-1: not applicable)
	field     string // crc | len | payload | cut
	off       int
	mask      byte
	decN      int    // messages the real decoder yields behind the marker on the damaged bytes
	decTerm   string // eof | corruption | error
	decErr    string
}

type walFrame struct{ off, n int } // n = payload length

// walFrames lists the completely written records of a log (own framing reader:
// crc32c(4) | length(4) | payload).
func walFrames(b []byte) []walFrame {
	var out []walFrame
	for off := 0; off+8 <= len(b); {
		n := int(binary.BigEndian.Uint32(b[off+4 : off+8]))
		if n < 0 || off+8+n > len(b) {
			break
		}
		out = append(out, walFrame{off, n})
		off += 8 + n
	}
	return out
}

// damageForReplay applies the tape-chosen damage to the node's WAL head file
// and records what the real decoder makes of the result.
func (cl *Cluster) damageForReplay(n *Node) *replayJudge {
	c := cl.c
	dir := filepath.Dir(n.walFile())
	ents, err := os.ReadDir(dir)
	if err != nil || len(ents) != 1 {
		c.Probe("replay-judge/skipped-rotated-or-missing-log")
		return nil
	}
	b, err := os.ReadFile(n.walFile())
	if err != nil || len(b) == 0 {
		return nil
	}
	frames := walFrames(b)
	// classify the records of the undamaged log with the real decoder
	dec := cs.NewWALDecoder(bytes.NewReader(b))
	last := -1
	var marker uint64
	for i := range frames {
		var m *cs.TimedWALMessage
		var derr error
		if _, _, p := kernelTry(func() { m, derr = dec.Decode() }); p || derr != nil || m == nil {
			c.Probe("replay-judge/skipped-undamaged-log-undecodable")
			return nil
		}
		if eh, ok := m.Msg.(cs.EndHeightMessage); ok {
			last, marker = i, eh.Height
		}
	}
	if last < 0 {
		c.Probe("replay-judge/skipped-no-marker")
		return nil
	}
	rj := &replayJudge{kind: "none", marker: marker, markerEnd: frames[last].off + 8 + frames[last].n, rec: -1}
	region := frames[last+1:]
	rj.nrec = len(region)
	f := cl.fault
	flip := func(fr walFrame) {
		switch k := f.Int(3); {
		case k == 0 || fr.n == 0:
			rj.field, rj.off = "crc", fr.off+f.Int(4)
		case k == 1:
			rj.field, rj.off = "len", fr.off+4+f.Int(4)
		default:
			rj.field, rj.off = "payload", fr.off+8+f.Int(fr.n)
		}
		rj.mask = byte(1) << uint(f.Int(8))
		b[rj.off] ^= rj.mask
	}
	switch k := f.Int(8); {
	case k >= 1 && k <= 4 && len(region) > 0:
		rj.kind = "flip-last-height"
		rj.rec = f.Int(len(region))
		flip(region[rj.rec])
	case k == 5 || k == 6:
		rj.kind, rj.field = "cut", "cut"
		rj.off = rj.markerEnd + f.Int(len(b)-rj.markerEnd+1)
		b = b[:rj.off]
	case k == 7 && last > 0:
		rj.kind = "flip-earlier-height"
		flip(frames[f.Int(last)])
	}
	if rj.kind != "none" {
		if err := os.WriteFile(n.walFile(), b, 0600); err != nil {
			return nil
		}
		c.Fault("wal-" + rj.kind)
		cl.tracef("node%d: WAL %s record %d/%d field %s offset %d mask %#x (marker %d)", n.idx, rj.kind, rj.rec, rj.nrec, rj.field, rj.off, rj.mask, rj.marker)
	}
	// the decoder's view of the damaged bytes behind the marker
	if rj.markerEnd > len(b) {
		return nil
	}
	d := cs.NewWALDecoder(bytes.NewReader(b[rj.markerEnd:]))
	for rj.decTerm == "" {
		var m *cs.TimedWALMessage
		var derr error
		if _, _, p := kernelTry(func() { m, derr = d.Decode() }); p {
			c.Probe("replay-judge/skipped-decoder-panic")
			return nil
		}
		switch {
		case derr == io.EOF:
			rj.decTerm = "eof"
		case derr != nil && cs.IsDataCorruptionError(derr):
			rj.decTerm, rj.decErr = "corruption", derr.Error()
		case derr != nil:
			rj.decTerm, rj.decErr = "error", derr.Error()
		default:
			if _, ok := m.Msg.(cs.EndHeightMessage); ok {
				// cannot happen behind the last marker of an undamaged log; a
				// damaged byte that yields one is the decoder's business (walrig)
				c.Probe("replay-judge/skipped-marker-behind-last-marker")
				return nil
			}
			rj.decN++
		}
	}
	return rj
}

// judgeReplay compares what the restart did with the decoder's view. It
// returns true when it has taken over the node's fate (a refused start is
// cleaned up, the altered byte is restored the way an operator would repair
// the file, and the restart is scheduled again).
func (cl *Cluster) judgeReplay(n *Node, rj *replayJudge, panicked bool, site, msg string, err error) bool {
	c := cl.c
	how := "done"
	switch {
	case panicked:
		how = "refused(panic)"
	case err != nil:
		how = "refused(error)"
	case n.replayErr != "":
		how = "reported(error)"
	case !n.replayDone:
		how = "silent"
	}
	cl.tracef("node%d: catch-up replay %s msgs=%d (decoder: %d then %s) start height %d", n.idx, how, n.replayMsgs, rj.decN, rj.decTerm, n.startHeight)
	if n.startHeight == rj.marker+1 {
		c.Evals(1)
		c.Probe("replay-judge/judged/" + rj.kind + "/decoder-" + rj.decTerm + "/" + how)
		where := rj.kind
		if rj.rec >= 0 && rj.kind == "flip-last-height" {
			pos := "inner"
			if rj.rec == rj.nrec-1 {
				pos = "last"
			}
			where += "/" + rj.field + "/" + pos + "-record"
		}
		if how == "done" && rj.decTerm != "eof" {
			c.Violate("corruption-not-reported", "C14/catchup-replay/corruption-swallowed/"+where,
				"node %d restarted at height %d over a WAL with %s (record %d of %d behind the end-height marker %d, field %s, offset %d, mask %#x): the decoder yields %d message(s) and then %s (%s), but the catch-up replay handled %d message(s) and announced the log as replayed; the completely written records behind the damaged one were dropped without any report",
				n.idx, n.startHeight, rj.kind, rj.rec, rj.nrec, rj.marker, rj.field, rj.off, rj.mask, rj.decN, rj.decTerm, rj.decErr, n.replayMsgs)
		}
		if how == "done" && rj.decTerm == "eof" && n.replayMsgs < rj.decN {
			c.Violate("replay-incomplete", "C14/catchup-replay/fewer-messages-than-decoded/"+where,
				"node %d restarted at height %d over a WAL (%s): the decoder yields %d message(s) behind the end-height marker %d up to the end of the log, the catch-up replay handled only %d and announced the log as replayed",
				n.idx, n.startHeight, rj.kind, rj.decN, rj.marker, n.replayMsgs)
		}
	} else {
		c.Probe("replay-judge/not-judged-replay-targets-another-marker")
	}
	if !panicked && err == nil {
		return false
	}
	// the node refused to start; what OnStart had already started is torn down
	c.Probe("restart-refused")
	cl.tracef("node%d refused to start: %v %s %.200s", n.idx, err, site, msg)
	n.alive, n.failed = true, true
	if _, m2, p := kernelTry(func() { n.stop() }); p {
		cl.tracef("node%d: teardown after a refused start panicked: %.200s", n.idx, m2)
	}
	n.failed = false
	n.alive = false
	if rj.kind == "flip-last-height" || rj.kind == "flip-earlier-height" {
		// the operator's repair: the altered byte is put right, then the node is started again
		if b, e := os.ReadFile(n.walFile()); e == nil && rj.off < len(b) {
			b[rj.off] ^= rj.mask
			os.WriteFile(n.walFile(), b, 0600)
			who := n.idx
			n.noReplayDamage = true
			cl.push(&event{at: cl.now + 200*time.Millisecond, kind: evRestart, node: who, fn: func() { cl.restart(who) }})
		}
	}
	return true
}

var _ = fmt.Sprintf
