package cluster

import (
	"fmt"
	"math"
	"net"
	"os"
	"runtime"
	"sync"
	"testing/synctest"
	"time"

	cs "github.com/lianxiangcloud/linkchain/consensus"
	cstypes "github.com/lianxiangcloud/linkchain/consensus/types"
	cmn "github.com/lianxiangcloud/linkchain/libs/common"
	"github.com/lianxiangcloud/linkchain/libs/crypto/merkle"
	"github.com/lianxiangcloud/linkchain/libs/log"
	"github.com/lianxiangcloud/linkchain/libs/p2p"
	"github.com/lianxiangcloud/linkchain/libs/p2p/conn"
	"github.com/lianxiangcloud/linkchain/libs/ser"
	"github.com/lianxiangcloud/linkchain/types"

	"verif/sim/kernel"
)

// C16: a Byzantine PEER. It sends (a) mutated encodings of genuine traffic and
// raw garbage on every consensus channel and (b) well-typed messages with
// boundary field values, to honest nodes in whatever consensus state they are
// in. Delivery goes through the real ConsensusReactor.Receive. Each hostile
// message is delivered as an event of its own, so the round-state fingerprint
// before and after it is attributable to it alone.

type hostileMsg struct {
	name       string // stable description of the input shape (violation key material)
	chID       byte
	bz         []byte
	mustNotChg bool // invalid by construction: the consensus state must not change
}

func boundaryInt(t *kernel.Tape, cur int) (int, string) {
	switch t.Int(7) {
	case 0:
		return -1, "-1"
	case 1:
		return math.MaxInt32, "maxint32"
	case 2:
		return math.MaxInt64, "maxint64"
	case 3:
		return math.MinInt64, "minint64"
	case 4:
		return cur + 1, "cur+1"
	case 5:
		return 0, "0"
	}
	return cur, "cur"
}

func boundaryHeight(t *kernel.Tape, cur uint64) (uint64, string) {
	switch t.Int(6) {
	case 0:
		return 0, "0"
	case 1:
		return cur - 1, "cur-1"
	case 2:
		return cur + 1, "cur+1"
	case 3:
		return math.MaxUint64, "max"
	}
	return cur, "cur"
}

func weirdBitArray(t *kernel.Tape) (*cmn.BitArray, string) {
	switch t.Int(6) {
	case 0:
		return nil, "nil"
	case 1:
		return &cmn.BitArray{Bits: 1 << 30, Elems: []uint64{1}}, "bits>elems"
	case 2:
		return &cmn.BitArray{Bits: -5, Elems: []uint64{1}}, "bits<0"
	case 3:
		return &cmn.BitArray{Bits: 3, Elems: nil}, "elems-nil"
	case 4:
		return &cmn.BitArray{Bits: 1, Elems: make([]uint64, 64)}, "elems>bits"
	}
	return cmn.NewBitArray(4), "ok4"
}

// genHostile builds one hostile message aimed at node h.
func (b *byzActor) genHostile(h *Node, rs *cstypes.RoundState) *hostileMsg {
	cl := b.cl
	t := cl.c.Tape.Fork("hostile")
	enc := func(name string, ch byte, m cs.ConsensusMessage, must bool) *hostileMsg {
		var bz []byte
		_, _, panicked := kernel.Try(func() {
			var err error
			bz, err = ser.EncodeToBytesWithType(m)
			if err != nil {
				bz = nil
			}
		})
		if panicked || bz == nil {
			return nil
		}
		return &hostileMsg{name: name, chID: ch, bz: bz, mustNotChg: must}
	}
	idx, _ := rs.Validators.GetByAddress(b.n.key.Address())
	size := rs.Validators.Size()
	chans := []byte{cs.StateChannel, cs.DataChannel, cs.VoteChannel, cs.VoteSetBitsChannel}

	kindPick := t.Pick(3, 3, 5, 3, 4, 2, 2, 2)
	// late in a long stall (past the 12-minute limit after which a node accepts
	// a recover-typed proposal, before its own 15-minute recover timer) the
	// recover trigger is the state-changing path worth aiming at
	inRecoverWindow := cl.cfg.LongStall > 0 && cl.now > 12*time.Minute+20*time.Second && cl.now < cl.cfg.LongStall
	if inRecoverWindow && t.Bool(1, 2) {
		H := rs.Height
		R, rn := boundaryInt(t, rs.Round)
		pol, pn := boundaryInt(t, -1)
		tot, tn := boundaryInt(t, 1)
		p := &types.Proposal{Type: types.ProposalTypeRecover, Height: H, Round: R, Timestamp: time.Now().UTC(), POLRound: pol,
			BlockPartsHeader: types.PartSetHeader{Total: tot, Hash: t.Bytes(20)}}
		sig, _ := b.n.key.Priv.Sign([]byte("not the sign bytes"))
		p.Signature = sig
		cl.c.Probe("hostile-recover-proposal-in-window")
		return enc(fmt.Sprintf("proposal/recover/H=cur/R=%s/pol=%s/total=%s", rn, pn, tn), cs.DataChannel, &cs.ProposalMessage{Proposal: p}, true)
	}
	// at its own proposer turn the hostile validator can sign: a proposal that
	// passes the signature check with an out-of-range part count
	if rs.Proposal == nil && rs.Validators != nil && rs.Validators.GetProposer() != nil &&
		string(rs.Validators.GetProposer().Address) == string(b.n.key.Address()) && t.Bool(1, 3) {
		tot, tn := boundaryInt(t, 1)
		pol, pn := -1, "-1"
		if t.Bool(1, 4) {
			pol, pn = boundaryInt(t, -1)
		}
		psh := types.PartSetHeader{Total: tot, Hash: t.Bytes(20)}
		if p := b.signProposal(rs.Height, rs.Round, psh, pol, types.BlockID{}); p != nil {
			cl.c.Probe("hostile-signed-proposal-at-own-turn")
			// correctly signed by the legitimate proposer: it may be taken as the
			// round's proposal, but it must not take the node down
			return enc(fmt.Sprintf("proposal/signed-by-proposer/pol=%s/total=%s", pn, tn), cs.DataChannel, &cs.ProposalMessage{Proposal: p}, false)
		}
	}
	switch kindPick {
	case 0: // raw garbage
		n := t.Range(0, 200)
		return &hostileMsg{name: "garbage", chID: chans[t.Int(4)], bz: t.Bytes(n), mustNotChg: true}
	case 1: // mutated genuine message
		if len(cl.recent) == 0 {
			return nil
		}
		src := cl.recent[t.Int(len(cl.recent))]
		bz := append([]byte(nil), src.bz...)
		kind := "flip"
		switch t.Int(3) {
		case 0:
			for k := 0; k < 1+t.Int(3) && len(bz) > 0; k++ {
				bz[t.Int(len(bz))] ^= byte(1 << uint(t.Int(8)))
			}
		case 1:
			kind = "truncate"
			if len(bz) > 1 {
				bz = bz[:t.Int(len(bz))]
			}
		case 2:
			kind = "wrong-channel"
			return &hostileMsg{name: "genuine/" + kind, chID: chans[t.Int(4)], bz: bz, mustNotChg: false}
		}
		// a flipped genuine message may still be (another) valid message: no state claim
		return &hostileMsg{name: "genuine/" + kind, chID: src.ch, bz: bz, mustNotChg: false}
	case 2: // block part with boundary fields
		H, hn := boundaryHeight(t, rs.Height)
		R, rn := boundaryInt(t, rs.Round)
		var part *types.Part
		pn := ""
		switch t.Int(6) {
		case 0:
			part, pn = nil, "nil-part"
		default:
			i, in := boundaryInt(t, 0)
			p := &types.Part{Index: i}
			pn = "index=" + in
			switch t.Int(3) {
			case 0:
				p.Bytes = nil
			case 1:
				p.Bytes = t.Bytes(t.Range(1, 300))
			case 2:
				p.Bytes = make([]byte, 70000)
			}
			switch t.Int(3) {
			case 0:
				p.Proof = merkle.SimpleProof{}
			case 1:
				p.Proof = merkle.SimpleProof{Aunts: [][]byte{t.Bytes(20), t.Bytes(20)}}
			case 2:
				a := make([][]byte, 200)
				for k := range a {
					a[k] = t.Bytes(20)
				}
				p.Proof = merkle.SimpleProof{Aunts: a}
			}
			part = p
		}
		// a part with a random proof is forged by construction
		return enc(fmt.Sprintf("blockpart/H=%s/R=%s/%s", hn, rn, pn), cs.DataChannel, &cs.BlockPartMessage{Height: H, Round: R, Part: part}, true)
	case 3: // proposal with boundary fields and a garbage signature
		if t.Int(8) == 0 {
			return enc("proposal/nil", cs.DataChannel, &cs.ProposalMessage{Proposal: nil}, true)
		}
		H, hn := boundaryHeight(t, rs.Height)
		R, rn := boundaryInt(t, rs.Round)
		pol, pn := boundaryInt(t, -1)
		tot, tn := boundaryInt(t, 1)
		p := &types.Proposal{Type: types.ProposalTypeNormal, Height: H, Round: R, Timestamp: time.Now().UTC(), POLRound: pol,
			BlockPartsHeader: types.PartSetHeader{Total: tot, Hash: t.Bytes(20)}}
		tn2 := "normal"
		if t.Bool(1, 3) {
			p.Type = types.ProposalTypeRecover
			tn2 = "recover"
		}
		// the signature is by the hostile key over other bytes: invalid unless by accident
		sig, _ := b.n.key.Priv.Sign([]byte("not the sign bytes"))
		p.Signature = sig
		return enc(fmt.Sprintf("proposal/%s/H=%s/R=%s/pol=%s/total=%s", tn2, hn, rn, pn, tn), cs.DataChannel, &cs.ProposalMessage{Proposal: p}, true)
	case 4: // vote with boundary fields
		if t.Int(8) == 0 {
			return enc("vote/nil", cs.VoteChannel, &cs.VoteMessage{Vote: nil}, true)
		}
		H, hn := boundaryHeight(t, rs.Height)
		R, rn := boundaryInt(t, rs.Round)
		vi, vn := boundaryInt(t, idx)
		vs, sn := boundaryInt(t, size)
		typ := []byte{types.VoteTypePrevote, types.VoteTypePrecommit, 0, 3, 255}[t.Int(5)]
		v := &types.Vote{ValidatorAddress: b.n.key.Address(), ValidatorIndex: vi, ValidatorSize: vs, Height: H, Round: R,
			Timestamp: time.Now().UTC(), Type: typ, BlockID: fakeBlockID("hostile")}
		valid := false
		signed := "badsig"
		if t.Bool(1, 2) {
			if sig, err := b.n.key.Priv.Sign(v.SignBytes(cl.gen.ChainID)); err == nil {
				v.Signature = sig
				signed = "signed"
				// a correctly signed, well-indexed vote of a real validator for this or the
				// previous height is legitimate input whatever it votes for
				// (the next height too: the node may have moved on by the time the
				// message is delivered, and the vote is then one for its current height)
				valid = vi == idx && vs == size && (H == rs.Height || H+1 == rs.Height || H == rs.Height+1) && R >= 0 && (typ == types.VoteTypePrevote || typ == types.VoteTypePrecommit)
			}
		} else {
			sig, _ := b.n.key.Priv.Sign([]byte("other"))
			v.Signature = sig
		}
		return enc(fmt.Sprintf("vote/%s/H=%s/R=%s/idx=%s/size=%s/type=%d", signed, hn, rn, vn, sn, typ), cs.VoteChannel, &cs.VoteMessage{Vote: v}, !valid)
	case 5: // vote set bits
		H, hn := boundaryHeight(t, rs.Height)
		R, rn := boundaryInt(t, rs.Round)
		ba, bn := weirdBitArray(t)
		typ := []byte{types.VoteTypePrevote, types.VoteTypePrecommit, 0, 77}[t.Int(4)]
		return enc(fmt.Sprintf("votesetbits/H=%s/R=%s/type=%d/bits=%s", hn, rn, typ, bn), cs.VoteSetBitsChannel,
			&cs.VoteSetBitsMessage{Height: H, Round: R, Type: typ, BlockID: fakeBlockID("vsb"), Votes: ba}, true)
	case 6: // maj23 claim
		H, hn := boundaryHeight(t, rs.Height)
		R, rn := boundaryInt(t, rs.Round)
		typ := []byte{types.VoteTypePrevote, types.VoteTypePrecommit, 0, 77}[t.Int(4)]
		// a claim is not a vote: the round state proper must not change
		return enc(fmt.Sprintf("maj23/H=%s/R=%s/type=%d", hn, rn, typ), cs.StateChannel,
			&cs.VoteSetMaj23Message{Height: H, Round: R, Type: typ, BlockID: fakeBlockID("m23")}, true)
	case 7: // state-channel announcements
		H, hn := boundaryHeight(t, rs.Height)
		R, rn := boundaryInt(t, rs.Round)
		switch t.Int(5) {
		case 0:
			st := []cstypes.RoundStepType{0, 1, 8, 9, 200}[t.Int(5)]
			lcr, ln := boundaryInt(t, 0)
			return enc(fmt.Sprintf("newroundstep/H=%s/R=%s/step=%d/lcr=%s", hn, rn, st, ln), cs.StateChannel,
				&cs.NewRoundStepMessage{Height: H, Round: R, Step: st, SecondsSinceStartTime: t.Int(100), LastCommitRound: lcr}, true)
		case 1:
			ba, bn := weirdBitArray(t)
			tot, tn := boundaryInt(t, 1)
			return enc(fmt.Sprintf("commitstep/H=%s/total=%s/bits=%s", hn, tn, bn), cs.StateChannel,
				&cs.CommitStepMessage{Height: H, BlockPartsHeader: types.PartSetHeader{Total: tot, Hash: t.Bytes(20)}, BlockParts: ba}, true)
		case 2:
			i, in := boundaryInt(t, 0)
			typ := []byte{types.VoteTypePrevote, types.VoteTypePrecommit, 0, 77}[t.Int(4)]
			return enc(fmt.Sprintf("hasvote/H=%s/R=%s/type=%d/index=%s", hn, rn, typ, in), cs.StateChannel,
				&cs.HasVoteMessage{Height: H, Round: R, Type: typ, Index: i}, true)
		case 3:
			ba, bn := weirdBitArray(t)
			return enc(fmt.Sprintf("proposalpol/H=%s/R=%s/bits=%s", hn, rn, bn), cs.DataChannel,
				&cs.ProposalPOLMessage{Height: H, ProposalPOLRound: R, ProposalPOL: ba}, true)
		case 4:
			return enc("heartbeat/nil", cs.StateChannel, &cs.ProposalHeartbeatMessage{Heartbeat: nil}, true)
		}
	}
	return nil
}

type recentMsg struct {
	ch byte
	bz []byte
}

// hostileAct sends one hostile message to one honest node.
func (b *byzActor) hostileAct() {
	cl := b.cl
	defer func() {
		if cl.now < cl.cfg.GST {
			gap := time.Duration(5+cl.sched.Int(80)) * time.Millisecond
			if cl.cfg.LongStall > 0 {
				gap *= 25 // keep a 17-minute stall affordable
			}
			cl.push(&event{at: cl.now + gap, kind: evByz, fn: b.hostileAct})
		}
	}()
	var live []*Node
	for _, h := range cl.honest() {
		if h.alive && !h.failed {
			live = append(live, h)
		}
	}
	if len(live) == 0 {
		return
	}
	h := live[cl.sched.Int(len(live))]
	rs := h.roundState()
	if b.withholdScript(live) {
		return
	}
	m := b.genHostile(h, rs)
	if m == nil {
		return
	}
	cl.c.Fault("hostile-message")
	cl.c.Evals(1)
	cl.hostileAt = cl.now
	// delivered directly (the hostile peer is connected), as an event of its own
	cl.push(&event{at: cl.now + time.Millisecond, kind: evDeliver, node: h.idx, from: b.n.idx, chID: m.chID, msg: m.bz, desc: m.name, hostile: m, viaConn: cl.sched.Bool(1, 3)})
}

// deliverViaConn hands bz to node to the way the network does: packets written
// to a pipe, a real MConnection reading them, its receive routine calling the
// reactor. It reports whether the connection ended with a recovered panic.
func (cl *Cluster) deliverViaConn(to *Node, peer p2p.Peer, chID byte, bz []byte) (panicDropped bool) {
	c1, c2 := net.Pipe()
	cfg := conn.DefaultMConnConfig()
	cfg.RecvRate = 1 << 40 // no rate limiting sleeps: one message, then the connection is closed
	cfg.SendRate = 1 << 40
	var mu sync.Mutex
	var connErr interface{}
	received, completed := 0, 0
	onReceive := func(ch byte, b []byte) {
		mu.Lock()
		received++
		mu.Unlock()
		to.reactor.Receive(ch, peer, b)
		mu.Lock()
		completed++
		mu.Unlock()
	}
	onError := func(r interface{}) {
		mu.Lock()
		connErr = r
		mu.Unlock()
	}
	mc := conn.NewMConnectionWithConfig(c2, to.reactor.GetChannels(), onReceive, onError, cfg)
	mc.SetLogger(log.NewNopLogger())
	if err := mc.Start(); err != nil {
		c1.Close()
		c2.Close()
		return false
	}
	go func() {
		max := cfg.MaxPacketMsgPayloadSize
		rest := bz
		for {
			chunk := rest
			eof := byte(1)
			if len(chunk) > max {
				chunk, eof = rest[:max], 0
			}
			rest = rest[len(chunk):]
			if _, err := ser.EncodeWriterWithType(c1, conn.PacketMsg{ChannelID: chID, EOF: eof, Bytes: chunk}); err != nil || eof == 1 {
				return
			}
		}
	}()
	synctest.Wait()
	mc.Stop()
	c1.Close()
	c2.Close()
	synctest.Wait()
	cl.c.Fault("hostile-message-through-real-connection")
	mu.Lock()
	defer mu.Unlock()
	if received > 0 {
		cl.c.Probe("real-connection-handed-message-to-reactor")
	} else {
		cl.c.Probe("real-connection-refused-message")
	}
	if connErr != nil && os.Getenv("VERIF_DEBUG") != "" {
		cl.tracef("connErr: %.200s", fmt.Sprint(connErr))
	}
	// Receive did not return and the connection reported an error: the panic
	// was recovered by the connection layer, which dropped the peer
	return connErr != nil && received > completed
}

// stateFinger is the fingerprint of what the property calls "its state": the
// consensus round state proper (not peer bookkeeping).
func stateFinger(n *Node) string {
	rs := n.roundState()
	s := fmt.Sprintf("H=%d R=%d S=%d CR=%d LR=%d VR=%d", rs.Height, rs.Round, rs.Step, rs.CommitRound, rs.LockedRound, rs.ValidRound)
	if rs.Proposal != nil {
		s += " P=" + rs.Proposal.BlockPartsHeader.String() + fmt.Sprint(rs.Proposal.POLRound)
	}
	if rs.ProposalBlock != nil {
		s += " PB=" + rs.ProposalBlock.Hash().String()
	}
	if rs.ProposalBlockParts != nil {
		s += fmt.Sprintf(" PBP=%s/%d", rs.ProposalBlockParts.Header().String(), rs.ProposalBlockParts.Count())
	}
	if rs.LockedBlock != nil {
		s += " LB=" + rs.LockedBlock.Hash().String()
	}
	if rs.ValidBlock != nil {
		s += " VB=" + rs.ValidBlock.Hash().String()
	}
	if rs.Validators != nil {
		s += fmt.Sprintf(" VAL=%x", rs.Validators.Hash())
	}
	if rs.Votes != nil {
		for r := 0; r <= rs.Round+1; r++ {
			// an allocated but empty vote set is not consensus state
			if pv := rs.Votes.Prevotes(r); pv != nil && !pv.BitArray().IsEmpty() {
				s += fmt.Sprintf(" pv%d=%s", r, pv.BitArray().String())
			}
			if pc := rs.Votes.Precommits(r); pc != nil && !pc.BitArray().IsEmpty() {
				s += fmt.Sprintf(" pc%d=%s", r, pc.BitArray().String())
			}
		}
	}
	if rs.LastCommit != nil {
		s += " LC=" + rs.LastCommit.BitArray().String()
	}
	s += fmt.Sprintf(" store=%d recover=%v", n.chain.BlockStore.Height(), n.cs.VerifStepRecover())
	return s
}

func totalAlloc() uint64 {
	var m runtime.MemStats
	runtime.ReadMemStats(&m)
	return m.TotalAlloc
}

// withholdScript: the hostile peer is a validator and, at its proposer turns,
// a functioning but selective proposer. It proposes a valid block to everyone
// except one victim and votes for it, so the others commit it and the victim
// learns the decision from +2/3 precommits before it ever saw the proposal
// (commit step, waiting for the block's parts). Then it sends the victim a
// second, correctly signed proposal of the same round for another block.
// A correct node ignores proposals in the commit step and goes on to fetch
// and commit the decided block; the liveness oracle judges the outcome.
func (b *byzActor) withholdScript(live []*Node) bool {
	cl := b.cl
	// phase 2: a victim is waiting in the commit step without the block
	if b.wh != nil {
		v := cl.nodes[b.wh.victim]
		if v.alive && !v.failed {
			rs := v.roundState()
			if rs.Height == b.wh.H && rs.Step == cstypes.RoundStepCommit && rs.ProposalBlock == nil && !b.wh.sent {
				b.wh.sent = true
				psh := types.PartSetHeader{Total: 3, Hash: cl.c.Tape.Fork("hostile").Bytes(20)}
				if p := b.signProposal(b.wh.H, rs.Round, psh, -1, types.BlockID{}); p != nil {
					cl.c.Fault("hostile-second-proposal-in-commit-step")
					cl.c.Probe("victim-in-commit-step-without-block")
					cl.hostileAt = cl.now
					cl.send(b.n.idx, v.idx, &cs.ProposalMessage{Proposal: p}, "hostile-proposal2")
				}
				return true
			}
			if rs.Height > b.wh.H {
				b.wh = nil
			}
		} else {
			b.wh = nil
		}
	}
	if b.wh != nil || len(live) < 3 {
		return false
	}
	// phase 1: at a proposer turn, propose to all but the victim
	for _, h := range live {
		rs := h.roundState()
		if rs.Step > cstypes.RoundStepPropose || rs.Proposal != nil || !bytesEqual(rs.Validators.GetProposer().Address, b.n.key.Address()) {
			continue
		}
		key := fmt.Sprintf("wh|%d|%d", rs.Height, rs.Round)
		if b.done[key] {
			continue
		}
		b.done[key] = true
		if !cl.sched.Bool(1, 2) {
			continue
		}
		block, _ := b.buildBlock(h, rs, 0)
		if block == nil {
			continue
		}
		victim := live[cl.sched.Int(len(live))]
		b.wh = &withhold{H: rs.Height, R: rs.Round, victim: victim.idx}
		cl.c.Fault("hostile-proposal-withheld-from-victim")
		var id types.BlockID
		for _, n := range live {
			if n.idx != victim.idx {
				id = b.sendBlock(n, rs.Height, rs.Round, block, "hostile-block")
			}
		}
		idx, _ := rs.Validators.GetByAddress(b.n.key.Address())
		size := rs.Validators.Size()
		H, R := rs.Height, rs.Round
		cl.push(&event{at: cl.now + 20*time.Millisecond, kind: evByz, fn: func() {
			for _, n := range cl.honest() {
				for _, typ := range []byte{types.VoteTypePrevote, types.VoteTypePrecommit} {
					if v := b.signVote(H, R, typ, id, size, idx); v != nil {
						cl.send(b.n.idx, n.idx, voteMsg(v), "hostile-vote")
					}
				}
			}
		}})
		return true
	}
	return false
}

type withhold struct {
	H      uint64
	R      int
	victim int
	sent   bool
}

func bytesEqual(a, b []byte) bool { return string(a) == string(b) }
