package cluster

import (
	"fmt"
	"os"
	"path/filepath"
	"strings"
	"testing/synctest"
	"time"

	cfg "github.com/lianxiangcloud/linkchain/config"
	cs "github.com/lianxiangcloud/linkchain/consensus"
	cstypes "github.com/lianxiangcloud/linkchain/consensus/types"
	auto "github.com/lianxiangcloud/linkchain/libs/autofile"
	"github.com/lianxiangcloud/linkchain/libs/crypto"
	"github.com/lianxiangcloud/linkchain/libs/log"
	"github.com/lianxiangcloud/linkchain/types"

	"verif/sim/simdb"
	"verif/sim/simnode"
)

// Node is one simulated validator (or observer) node running the real
// consensus state machine, reactor inbound path, application and stores.
type Node struct {
	cl   *Cluster
	idx  int
	id   string
	key  simnode.ValKey
	dir  string // scratch dir: priv validator file, WAL, kv wal
	disk *simdb.Disk

	chain   *simnode.Chain
	cs      *cs.ConsensusState
	reactor *cs.ConsensusReactor
	ticker  *cs.VerifTicker
	pv      *recPV
	wal     *teeWAL
	sw      *simnode.Switch
	peers   map[int]*simnode.Peer // peers[j] represents remote node j as seen from this node
	app     *recApp

	alive                            bool
	incarn                           int  // restarts so far
	failed                           bool // consensus routine reported CONSENSUS FAILURE
	failMsg                          string
	killReq                          bool // node asked to be killed (cmn.Kill)
	killSeen                         bool
	crashAtSign                      bool          // die at the next signing request (before it is served)
	doubleTap                        bool          // after the crash at a signing request: crash again right after the restart
	walGone                          bool          // the next restart finds no WAL
	afterOwnProposal, sawOwnProposal bool          // variant of crashAtSign: the vote request that follows the own proposal
	starting                         bool          // inside start(): what is signed now is signed by the WAL catch-up replay
	frozen                           bool          // durable image frozen mid-event: the node is a zombie until torn down
	downFor                          time.Duration // how long the node stays down after the pending crash
	fveRejected                      string        // the FaultValidatorsEvidence check of this node rejected a block
	outbox                           []cs.ConsensusMessage
	timer                            *pendingTimer
	timerGen                         int
	skewNum                          int // timeouts are multiplied by skewNum/8
	useWAL                           bool
	lastProg                         time.Duration // last time the node committed
	// what the WAL catch-up replay of the current start() consumed and reported (log tap)
	replayMsgs     int
	replayDone     bool
	replayErr      string
	startHeight    uint64 // height the consensus state was built for by the current start()
	noReplayDamage bool   // the next restart leaves the WAL as it is (ModeWALReplay: restart after a repair)
}

type pendingTimer struct {
	ti cs.VerifTimeout
	at time.Duration
}

// ---------------------------------------------------------------- logging tap

type failTap struct{ n *Node }

// cslog: debugging aid, VERIF_CSLOG=<node id> prints that node's consensus log
var cslog = os.Getenv("VERIF_CSLOG")

func (h failTap) Log(r *log.Record) error {
	if cslog != "" && cslog == h.n.id && r.Lvl <= log.LvlInfo {
		fmt.Fprintf(os.Stderr, "CSLOG t=%dms %s %.300s\n", h.n.cl.now.Milliseconds(), r.Msg, fmt.Sprint(r.Ctx...))
	}
	if strings.HasPrefix(r.Msg, "Evidence FaultVal") || strings.HasPrefix(r.Msg, "Evidence proposer error") || strings.HasPrefix(r.Msg, "Evidence round/height error") {
		h.n.fveRejected = r.Msg + " " + fmt.Sprint(r.Ctx...)
	}
	if h.n.starting && strings.HasPrefix(r.Msg, "Replay: ") {
		switch {
		case r.Msg == "Replay: Done":
			h.n.replayDone = true
		case strings.HasPrefix(r.Msg, "Replay: wal.group.Search"):
		default:
			h.n.replayMsgs++
		}
	}
	if h.n.starting && strings.HasPrefix(r.Msg, "Error on catchup replay") {
		h.n.replayErr = fmt.Sprint(r.Ctx...)
	}
	if strings.Contains(r.Msg, "Error on ApplyBlock") {
		h.n.killReq = true
		h.n.failMsg = fmt.Sprint(r.Ctx...)
	}
	if strings.Contains(r.Msg, "CONSENSUS FAILURE") {
		h.n.failed = true
		h.n.failMsg = fmt.Sprint(r.Ctx...)
		if len(h.n.failMsg) > 600 {
			h.n.failMsg = h.n.failMsg[:600]
		}
	}
	return nil
}

// ---------------------------------------------------------------- tee WAL

// teeWAL is the consensus.WAL the node writes to: it records the node's own
// messages (the simulator's outbound tap) and forwards to the real file WAL
// when one is configured.
type teeWAL struct {
	n     *Node
	inner cs.WAL // nil: no file WAL
}

func (w *teeWAL) tap(m cs.WALMessage) {
	kind, msg, peer, _ := cs.VerifUnpackWAL(m)
	if kind == "msg" && peer == "" {
		w.n.outbox = append(w.n.outbox, msg)
	}
}

func (w *teeWAL) Write(m cs.WALMessage) {
	if w.inner != nil {
		w.inner.Write(m)
	}
	w.tap(m)
}

func (w *teeWAL) WriteSync(m cs.WALMessage) {
	if w.inner != nil {
		w.inner.WriteSync(m)
	}
	w.tap(m)
}

func (w *teeWAL) Group() *auto.Group {
	if w.inner != nil {
		return w.inner.Group()
	}
	return nil
}

func (w *teeWAL) SearchForEndHeight(height uint64, options *cs.WALSearchOptions) (*auto.GroupReader, bool, error) {
	if w.inner != nil {
		return w.inner.SearchForEndHeight(height, options)
	}
	return nil, false, nil
}

func (w *teeWAL) Start() error {
	return nil // the inner WAL is started by OpenWAL
}

func (w *teeWAL) Stop() error {
	if w.inner != nil {
		return w.inner.Stop()
	}
	return nil
}

func (w *teeWAL) Wait() {
	if w.inner != nil {
		w.inner.Wait()
	}
}

// ---------------------------------------------------------------- recording PV

// Released is one signature the validator key handed out.
type Released struct {
	Node     int
	Incarn   int
	Kind     string // prevote | precommit | proposal
	Height   uint64
	Round    int
	BlockKey string // block id key ("" for nil)
	SignHex  string // hex of sign bytes without timestamp influence is not available; we keep BlockKey
	At       time.Duration
}

// recPV wraps the real FilePV and records everything it releases.
type recPV struct {
	*types.FilePV
	n *Node
}

// atSign implements the "die at the next signing request" crash flavour.
func (p *recPV) atSign(proposal bool) {
	if p.n.crashAtSign && !p.n.frozen {
		if p.n.afterOwnProposal {
			// variant: the vote request that follows the node's own proposal. The
			// proposal and its parts went through the internal queue and were
			// written to the WAL synchronously, so what triggers this vote is
			// durable although the vote is not signed yet: the restart's WAL
			// catch-up signs it for the first time
			if proposal {
				p.n.sawOwnProposal = true
				return
			}
			if !p.n.sawOwnProposal {
				return
			}
			p.n.cl.c.Probe("crash-at-vote-request-after-own-proposal")
		}
		p.n.crashAtSign = false
		p.n.freezeNow()
	}
}

// SignVoteWithoutSave is part of the signing interface of the node: whatever
// it releases counts like any other released signature.
func (p *recPV) SignVoteWithoutSave(chainID string, vote *types.Vote) error {
	p.atSign(false)
	err := p.FilePV.SignVoteWithoutSave(chainID, vote)
	if vote.Signature != nil && !p.n.frozen {
		kind := "prevote"
		if vote.Type == types.VoteTypePrecommit {
			kind = "precommit"
		}
		p.n.cl.c.Probe("signed-without-save")
		p.n.cl.orc.released(p.n, kind, vote.Height, vote.Round, vote.BlockID, vote)
	}
	return err
}

func (p *recPV) SignVote(chainID string, vote *types.Vote) error {
	p.atSign(false)
	var err error
	if p.n.cl.cfg.PermissivePV {
		// no signer-side guard: what the state machine asks for is what gets
		// released (only in runs without restarts)
		var sig crypto.Signature
		sig, err = p.n.key.Priv.Sign(vote.SignBytes(chainID))
		if err == nil {
			vote.Signature = sig
		}
	} else {
		err = p.FilePV.SignVote(chainID, vote)
	}
	if vote.Signature != nil && !p.n.frozen {
		kind := "prevote"
		if vote.Type == types.VoteTypePrecommit {
			kind = "precommit"
		}
		p.n.cl.orc.released(p.n, kind, vote.Height, vote.Round, vote.BlockID, vote)
	}
	return err
}

func (p *recPV) SignProposal(chainID string, proposal *types.Proposal) error {
	p.atSign(true)
	err := p.FilePV.SignProposal(chainID, proposal)
	if proposal.Signature != nil && !p.n.frozen {
		p.n.cl.orc.releasedProposal(p.n, proposal)
	}
	return err
}

// ---------------------------------------------------------------- recording app

// recApp wraps the BlockChainApp the consensus state talks to and records
// commits (the "what did this node commit" observable).
type recApp struct {
	cs.BlockChainApp
	n *Node
}

func (a *recApp) CommitBlock(block *types.Block, blockParts *types.PartSet, seenCommit *types.Commit, fastsync bool) ([]*types.Validator, error) {
	a.n.cl.orc.committing(a.n, block, seenCommit)
	vals, err := a.BlockChainApp.CommitBlock(block, blockParts, seenCommit, fastsync)
	if err == nil && !a.n.frozen {
		a.n.cl.orc.committed(a.n, block)
	}
	return vals, err
}

func (a *recApp) CheckBlock(block *types.Block) bool {
	a.n.chain.RegisterRate()
	return a.BlockChainApp.CheckBlock(block)
}

func (a *recApp) CreateBlock(height uint64, maxTxs int, gasLimit uint64, timeUnix uint64) *types.Block {
	a.n.chain.RegisterRate()
	return a.BlockChainApp.CreateBlock(height, maxTxs, gasLimit, timeUnix)
}

// ---------------------------------------------------------------- lifecycle

func (n *Node) pvFile() string { return filepath.Join(n.dir, "priv_validator.json") }
func (n *Node) walFile() string {
	return filepath.Join(n.dir, "cs.wal", "wal")
}

func (n *Node) consensusConfig() *cfg.ConsensusConfig {
	c := cfg.DefaultConsensusConfig()
	cc := n.cl.cfg
	c.TimeoutPropose = cc.TimeoutPropose
	c.TimeoutProposeDelta = cc.TimeoutDelta
	c.TimeoutPrevote = cc.TimeoutPrevote
	c.TimeoutPrevoteDelta = cc.TimeoutDelta
	c.TimeoutPrecommit = cc.TimeoutPrecommit
	c.TimeoutPrecommitDelta = cc.TimeoutDelta
	c.TimeoutCommit = cc.TimeoutCommit
	c.SkipTimeoutCommit = cc.SkipTimeoutCommit
	c.CreateEmptyBlocks = true
	c.SetWalFile(n.walFile())
	return c
}

// start assembles and starts the node over its current disk (fresh or
// restored), the way node.NewNode + Node.OnStart do for the consensus part.
func (n *Node) start() error {
	cl := n.cl
	logger := log.NewNopLogger()
	n.sw = simnode.NewSwitch(n.id)
	chain, err := simnode.OpenChain(n.disk, simnode.ChainOpts{IsTrie: cl.cfg.IsTrie, Switch: n.sw, Logger: logger})
	if err != nil {
		return err
	}
	n.chain = chain
	n.app = &recApp{BlockChainApp: chain.App, n: n}

	var fpv *types.FilePV
	if _, err := os.Stat(n.pvFile()); err == nil {
		fpv = types.LoadFilePV(n.pvFile())
	} else {
		g := types.GenFilePV(n.pvFile())
		g.UpdatePrikey(n.key.Priv)
		g.Save()
		fpv = types.LoadFilePV(n.pvFile())
	}
	n.pv = &recPV{FilePV: fpv, n: n}

	conf := n.consensusConfig()
	// the consensus logger taps "CONSENSUS FAILURE" (the receive routine's recover)
	csLogger := log.New("node", n.id)
	csLogger.SetHandler(failTap{n})
	state := cs.NewConsensusState(conf, chain.Status.Copy(), chain.BlockExec, n.app, chain.Mempool, chain.EvPool)
	n.startHeight = chain.Status.LastBlockHeight + 1
	state.SetEventBus(chain.EventBus)
	state.SetLogger(csLogger)
	state.SetPrivValidator(n.pv)
	n.ticker = cs.NewVerifTicker(func(v cs.VerifTimeout) { n.onSchedule(v) })
	state.SetTimeoutTicker(n.ticker)
	n.wal = &teeWAL{n: n}
	if n.useWAL {
		w, err := state.OpenWAL(n.walFile())
		if err != nil {
			return fmt.Errorf("OpenWAL: %v", err)
		}
		n.wal.inner = w
		state.VerifSetCatchup(true)
	} else {
		state.VerifSetCatchup(false)
	}
	state.VerifSetWAL(n.wal)
	n.cs = state
	n.reactor = cs.NewConsensusReactor(state, false, n.sw)
	n.reactor.SetLogger(csLogger)
	n.sw.AddReactor("CONSENSUS", n.reactor)

	n.peers = map[int]*simnode.Peer{}
	for j := range cl.nodes {
		if j == n.idx {
			continue
		}
		j := j
		p := simnode.NewPeer(cl.nodes[j].id, func(chID byte, msg []byte) bool {
			// direct replies of the reactor (vote-set bits) are not simulated
			return true
		})
		p.Set(types.PeerStateKey, cs.NewPeerState(p).SetLogger(logger))
		n.peers[j] = p
		n.sw.AddPeer(p)
	}
	n.timer = nil
	n.timerGen++
	n.outbox = nil
	n.failed = false
	n.alive = true
	if err := chain.EventBus.Start(); err != nil {
		return err
	}
	n.starting = true // the WAL catch-up replay runs inside the reactor's start
	err = n.reactor.Start()
	n.starting = false
	if err != nil {
		return fmt.Errorf("reactor start: %v", err)
	}
	return nil
}

// stop ends the node's goroutines. For a crash the caller has already taken
// the durable snapshot; whatever a graceful stop flushes afterwards is
// discarded together with the node's directory image.
func (n *Node) stop() {
	if !n.alive {
		return
	}
	n.alive = false
	n.timer = nil
	n.timerGen++
	// baseWAL.OnStop stops the group's ticker but never the head file's
	// (AutoFile.Close is not called anywhere): in a bubble that ticker would
	// keep virtual time running for ever after the run, one spinning goroutine
	// per WAL ever opened in this process
	var head interface{ Close() error }
	if n.wal != nil {
		if g := n.wal.Group(); g != nil {
			head = g.Head
		}
	}
	defer func() {
		if head != nil {
			head.Close()
		}
	}()
	if n.reactor != nil {
		if n.failed {
			// the receive routine is gone: reactor.Stop would wait for it forever
			n.cs.Stop()
			if n.wal != nil {
				n.wal.Stop()
			}
		} else {
			n.reactor.Stop()
		}
	}
	if n.chain != nil {
		n.chain.EventBus.Stop()
		n.chain.Close()
		synctest.Wait()
		n.chain.Close() // the mempool has two routines behind one unbuffered quit channel
	}
	n.sw.Stop()
}

// onSchedule is the VerifTicker callback: the node asked for a timeout. The
// filter is the one of the real ticker (later height/round/step replaces the
// pending timeout, older ones are ignored).
func (n *Node) onSchedule(v cs.VerifTimeout) {
	if cur := n.timer; cur != nil {
		ti := cur.ti
		if v.Height < ti.Height {
			return
		} else if v.Height == ti.Height {
			if v.Round < ti.Round {
				return
			} else if v.Round == ti.Round {
				if ti.Step > 0 && v.Step <= ti.Step {
					return
				}
			}
		}
	}
	d := v.Duration
	if d < 0 {
		d = 0
	}
	d = d * time.Duration(n.skewNum) / 8
	n.timer = &pendingTimer{ti: v, at: n.cl.now + d}
	n.timerGen++
	n.cl.push(&event{at: n.timer.at, kind: evTimer, node: n.idx, gen: n.timerGen})
}

func (n *Node) roundState() *cstypes.RoundState { return n.cs.GetRoundState() }
