package cluster

import (
	"bytes"
	"time"

	cs "github.com/lianxiangcloud/linkchain/consensus"
	cstypes "github.com/lianxiangcloud/linkchain/consensus/types"
	"github.com/lianxiangcloud/linkchain/libs/common"
	"github.com/lianxiangcloud/linkchain/libs/crypto"
	"github.com/lianxiangcloud/linkchain/types"
)

// byzActor is a Byzantine validator: a harness actor that owns a validator
// key, sees the honest nodes' states (the adversary is omniscient) and sends
// whatever its behaviour says.
type byzActor struct {
	cl   *Cluster
	n    *Node
	kind string
	done map[string]bool
	wh   *withhold // hostile peer: pending withhold-then-second-proposal script
}

func newByz(cl *Cluster, n *Node, kind string) (*byzActor, error) {
	return &byzActor{cl: cl, n: n, kind: kind, done: map[string]bool{}}, nil
}

func (b *byzActor) close() {}

func (b *byzActor) receive(from int, chID byte, msg []byte) {}

func (b *byzActor) schedule() {
	if b.kind == "silent" {
		return
	}
	if b.kind == "starve" {
		b.cl.initStarve(b)
		b.cl.push(&event{at: 5 * time.Millisecond, kind: evByz, fn: b.starveAct})
		return
	}
	if b.kind == "hostile" {
		b.cl.push(&event{at: time.Duration(20+b.cl.sched.Int(50)) * time.Millisecond, kind: evByz, fn: b.hostileAct})
		return
	}
	b.cl.push(&event{at: time.Duration(20+b.cl.sched.Int(50)) * time.Millisecond, kind: evByz, fn: b.act})
}

func (b *byzActor) valIndex() int {
	// validator index in the (address-sorted) validator set
	vs := b.cl.nodes[0].chainStatusValidators()
	if vs == nil {
		return -1
	}
	idx, _ := vs.GetByAddress(b.n.key.Address())
	return idx
}

func (n *Node) chainStatusValidators() *types.ValidatorSet {
	for _, h := range n.cl.honest() {
		if h.alive && h.cs != nil {
			return h.roundState().Validators
		}
	}
	return nil
}

func (b *byzActor) signVote(H uint64, R int, typ byte, id types.BlockID, size int, idx int) *types.Vote {
	v := &types.Vote{
		ValidatorAddress: b.n.key.Address(),
		ValidatorIndex:   idx,
		ValidatorSize:    size,
		Height:           H,
		Round:            R,
		Timestamp:        time.Now().UTC(),
		Type:             typ,
		BlockID:          id,
	}
	sig, err := b.n.key.Priv.Sign(v.SignBytes(b.cl.gen.ChainID))
	if err != nil {
		return nil
	}
	v.Signature = sig
	return v
}

// act runs periodically: look at every honest node and send it votes chosen
// by the behaviour.
func (b *byzActor) act() {
	cl := b.cl
	defer cl.push(&event{at: cl.now + time.Duration(30+cl.sched.Int(120))*time.Millisecond, kind: evByz, fn: b.act})
	if cl.now > cl.cfg.GST+30*time.Second {
		return
	}
	for _, h := range cl.honest() {
		if !h.alive || h.failed {
			continue
		}
		rs := h.roundState()
		idx, _ := rs.Validators.GetByAddress(b.n.key.Address())
		if idx < 0 {
			continue
		}
		b.voteAt(h, rs, idx)
	}
}

func fakeBlockID(tag string) types.BlockID {
	h := common.BytesToHash(crypto.Keccak256([]byte("fake-block-" + tag)))
	return types.BlockID{Hash: h, PartsHeader: types.PartSetHeader{Total: 1, Hash: crypto.Keccak256([]byte("fake-parts-" + tag))}}
}

func (b *byzActor) voteAt(h *Node, rs *cstypes.RoundState, idx int) {
	cl := b.cl
	H, R := rs.Height, rs.Round
	size := rs.Validators.Size()
	var candidates []types.BlockID
	if rs.ProposalBlock != nil && rs.ProposalBlockParts != nil {
		candidates = append(candidates, types.BlockID{Hash: rs.ProposalBlock.Hash(), PartsHeader: rs.ProposalBlockParts.Header()})
	}
	if rs.LockedBlock != nil {
		candidates = append(candidates, types.BlockID{Hash: rs.LockedBlock.Hash(), PartsHeader: rs.LockedBlockParts.Header()})
	}
	candidates = append(candidates, types.BlockID{}, fakeBlockID("x"))
	switch b.kind {
	case "equivocate-votes":
		// a different choice per destination node, both vote types, also next round
		for _, typ := range []byte{types.VoteTypePrevote, types.VoteTypePrecommit} {
			id := candidates[cl.sched.Int(len(candidates))]
			r := R + cl.sched.Int(2)
			key := keyOf(h.idx, H, r, typ, blockKey(id))
			if b.done[key] {
				continue
			}
			b.done[key] = true
			if v := b.signVote(H, r, typ, id, size, idx); v != nil {
				cl.c.Fault("byz-equivocating-vote")
				cl.send(b.n.idx, h.idx, &cs.VoteMessage{Vote: v}, "byz-vote")
				// the same signed vote under the other validators' indices: the index
				// is not covered by the signature, so only the receiver's comparison
				// of index and address keeps one validator from voting as all of them
				if cl.sched.Bool(1, 3) {
					for j := 0; j < size; j++ {
						if j == idx {
							continue
						}
						sp := *v
						sp.ValidatorIndex = j
						cl.c.Fault("byz-vote-under-foreign-index")
						cl.send(b.n.idx, h.idx, &cs.VoteMessage{Vote: &sp}, "byz-vote-foreign-index")
					}
				}
				// a (possibly false) majority claim for that block makes the node
				// track the conflicting vote per block; re-deliveries of it must
				// still count the validator once
				if !id.IsZero() && cl.sched.Bool(1, 2) {
					cl.c.Fault("byz-maj23-claim")
					cl.send(b.n.idx, h.idx, &cs.VoteSetMaj23Message{Height: H, Round: r, Type: typ, BlockID: id}, "byz-maj23")
					for k := 0; k < 1+cl.sched.Int(3); k++ {
						cl.c.Fault("byz-vote-redelivered")
						cl.send(b.n.idx, h.idx, &cs.VoteMessage{Vote: v}, "byz-vote-again")
					}
				}
			}
		}
	case "selective":
		// behaves like a voter for the proposal but only towards even nodes
		if h.idx%2 == 0 && len(candidates) > 0 {
			for _, typ := range []byte{types.VoteTypePrevote, types.VoteTypePrecommit} {
				id := candidates[0]
				key := keyOf(h.idx, H, R, typ, blockKey(id))
				if b.done[key] {
					continue
				}
				b.done[key] = true
				if v := b.signVote(H, R, typ, id, size, idx); v != nil {
					cl.c.Fault("byz-selective-vote")
					cl.send(b.n.idx, h.idx, &cs.VoteMessage{Vote: v}, "byz-vote")
				}
			}
		}
	case "amnesia-helper":
		// precommits the proposal early and prevotes nil later: tries to make
		// honest nodes lock and then unlock
		if len(candidates) > 0 {
			id := candidates[0]
			for _, x := range []struct {
				typ byte
				id  types.BlockID
			}{{types.VoteTypePrecommit, id}, {types.VoteTypePrevote, types.BlockID{}}, {types.VoteTypePrevote, id}} {
				key := keyOf(h.idx, H, R, x.typ, blockKey(x.id))
				if b.done[key] {
					continue
				}
				b.done[key] = true
				if v := b.signVote(H, R, x.typ, x.id, size, idx); v != nil {
					cl.c.Fault("byz-amnesia-vote")
					cl.send(b.n.idx, h.idx, &cs.VoteMessage{Vote: v}, "byz-vote")
				}
			}
		}
	case "catalogue":
		// C02: proposes catalogue-invalid blocks at its turns; otherwise silent
		if bytes.Equal(rs.Validators.GetProposer().Address, b.n.key.Address()) && rs.Step <= cstypes.RoundStepPropose && rs.Proposal == nil {
			b.catalogueTurn(h, rs)
		}
	case "equivocate-proposals":
		b.proposeAt(h, rs, idx)
		// and votes for whatever each node has as proposal
		if len(candidates) > 0 {
			for _, typ := range []byte{types.VoteTypePrevote, types.VoteTypePrecommit} {
				id := candidates[0]
				key := keyOf(h.idx, H, R, typ, blockKey(id))
				if b.done[key] {
					continue
				}
				b.done[key] = true
				if v := b.signVote(H, R, typ, id, size, idx); v != nil {
					cl.c.Fault("byz-equivocating-vote")
					cl.send(b.n.idx, h.idx, &cs.VoteMessage{Vote: v}, "byz-vote")
				}
			}
		}
	}
}

func keyOf(node int, H uint64, R int, typ byte, bk string) string {
	return string(rune(node)) + "|" + string(rune(H)) + "|" + string(rune(R)) + "|" + string(rune(typ)) + "|" + bk
}

func voteMsg(v *types.Vote) cs.ConsensusMessage { return &cs.VoteMessage{Vote: v} }
