// Package cluster is the R-cluster rig: n validator nodes, each the real
// consensus state machine + reactor inbound path + application + stores over
// a simulated disk, connected by a simulated message-level network, driven by
// one seeded discrete-event loop inside a synctest bubble.
package cluster

import (
	"container/heap"
	"fmt"
	"math/big"
	"os"
	"path/filepath"
	"sort"
	"testing/synctest"
	"time"

	cs "github.com/lianxiangcloud/linkchain/consensus"
	"github.com/lianxiangcloud/linkchain/libs/common"
	"github.com/lianxiangcloud/linkchain/libs/crypto"
	"github.com/lianxiangcloud/linkchain/libs/ser"

	"verif/sim/kernel"
	"verif/sim/simdb"
	"verif/sim/simnode"
)

// Config is the swarm configuration of one run (drawn from the tape head).
type Config struct {
	N            int  // validator nodes
	NByz         int  // how many of them are Byzantine (harness actors)
	Heights      int  // target heights to commit
	IsTrie       bool // storage mode
	UseWAL       bool // real file WAL on honest nodes
	MaxEvents    int
	Horizon      time.Duration // virtual time cap
	GST          time.Duration // faults stop at this virtual time
	DropPct      int           // message loss before GST (percent)
	DupPct       int
	MaxDelayMs   int
	Partition    bool
	Reorder      bool          // messages of one link and channel may overtake each other before GST
	PermissivePV bool          // the validator key signs whatever the state machine asks (no double-sign guard): the discipline of the state machine itself is observed
	LongStall    time.Duration // >0: every node isolated for this long (past the 15-minute recover timeout)
	WALDamage    bool          // at a restart the consensus WAL may be found truncated or gone (the signer file is the safety net)
	Crashes      bool
	Skew         bool
	PartSize     int

	TimeoutPropose    int
	TimeoutPrevote    int
	TimeoutPrecommit  int
	TimeoutCommit     int
	TimeoutDelta      int
	SkipTimeoutCommit bool
	GossipMs          int

	ByzKinds []string
	Powers   []int64
}

// Cluster is one simulated system.
type Cluster struct {
	c     *kernel.Ctx
	cfg   Config
	mode  Mode
	gen   *simnode.GenesisSpec
	nodes []*Node
	byz   []*byzActor
	orc   *oracle

	now    time.Duration
	start  time.Time
	q      eventHeap
	seq    uint64
	events int

	net     *kernel.Tape
	sched   *kernel.Tape
	fault   *kernel.Tape
	scratch string

	claimed map[string]time.Duration

	adv         *starve // delivery-controlling adversary (C01 "starve" scenario)
	recoverSeen bool
	partsSeen   map[int]string           // ModeParts: last checked (block object, part set) per node
	catAt       time.Duration            // last time a catalogue block was proposed
	hostileAt   time.Duration            // last time a hostile message was sent
	recent      []recentMsg              // recent genuine traffic (material for mutation)
	lastAt      map[[3]int]time.Duration // per (from,to,channel): last scheduled delivery (FIFO like one MConnection channel)
	parts       [][]int                  // current partition (groups of node indices); nil = fully connected
	stopReason  string
	trace       []string
}

// Mode selects which property's faults and oracles are emphasised.
type Mode int

const (
	ModeAgreement  Mode = iota // C01
	ModeValidation             // C02
	ModeHostile                // C16
	ModeProposer               // C17 (cluster part)
	ModeSigner                 // C04 (node-level part): crashes, WAL damage, every signing call recorded
	ModeParts                  // C12 (node-level part): equivocating proposers; the block a node assembled is the bytes it received
	ModeWALReplay              // C14 (node-level part): crashes; the WAL found cut or with one altered byte at the restart; what the catch-up replay consumed and reported is judged against the decoder's view of the same bytes
)

type evKind int

const (
	evDeliver evKind = iota
	evTimer
	evGossip
	evCrash
	evRestart
	evPartition
	evHeal
	evByz
	evHostile
)

type event struct {
	at   time.Duration
	seq  uint64
	kind evKind
	node int
	from int
	gen  int
	chID byte
	msg  []byte
	desc string
	fn   func()

	hostile     *hostileMsg
	viaConn     bool // hostile message delivered through a real MConnection
	fpBefore    string
	allocBefore uint64
}

type eventHeap []*event

func (h eventHeap) Len() int { return len(h) }
func (h eventHeap) Less(i, j int) bool {
	if h[i].at != h[j].at {
		return h[i].at < h[j].at
	}
	return h[i].seq < h[j].seq
}
func (h eventHeap) Swap(i, j int)       { h[i], h[j] = h[j], h[i] }
func (h *eventHeap) Push(x interface{}) { *h = append(*h, x.(*event)) }
func (h *eventHeap) Pop() interface{} {
	old := *h
	n := len(old)
	x := old[n-1]
	*h = old[:n-1]
	return x
}

func (cl *Cluster) push(e *event) {
	cl.seq++
	e.seq = cl.seq
	if e.at < cl.now {
		e.at = cl.now
	}
	heap.Push(&cl.q, e)
}

func (cl *Cluster) tracef(format string, args ...interface{}) {
	if len(cl.trace) < 400 {
		cl.trace = append(cl.trace, fmt.Sprintf("t=%dms ", cl.now.Milliseconds())+fmt.Sprintf(format, args...))
	}
}

// drawConfig draws the swarm configuration.
func drawConfig(c *kernel.Ctx, mode Mode) Config {
	t := c.Tape.Fork("config")
	thorough := c.Tier == kernel.Thorough
	cfg := Config{}
	cfg.N = t.Range(4, 5)
	if thorough {
		cfg.N = t.Range(4, 7)
	}
	cfg.Heights = t.Range(2, 3)
	if thorough {
		cfg.Heights = t.Range(3, 6)
	}
	cfg.IsTrie = t.Bool(1, 2)
	cfg.UseWAL = t.Bool(1, 3)
	cfg.MaxEvents = 6000
	if thorough {
		cfg.MaxEvents = 20000
	}
	cfg.Horizon = 10 * time.Minute
	cfg.PartSize = []int{64, 256, 1024, 65536}[t.Int(4)]
	cfg.TimeoutPropose = []int{300, 1000, 3000}[t.Int(3)]
	cfg.TimeoutPrevote = []int{100, 500, 1000}[t.Int(3)]
	cfg.TimeoutPrecommit = []int{100, 500, 1000}[t.Int(3)]
	cfg.TimeoutCommit = []int{10, 200, 1000}[t.Int(3)]
	cfg.TimeoutDelta = []int{10, 100, 500}[t.Int(3)]
	cfg.SkipTimeoutCommit = t.Bool(1, 2)
	cfg.GossipMs = []int{50, 150, 400}[t.Int(3)]
	// faults: some runs fault-free, most light, a few heavy
	switch t.Pick(2, 5, 2) {
	case 0:
	case 1:
		cfg.DropPct = t.Range(0, 10)
		cfg.DupPct = t.Range(0, 5)
		cfg.MaxDelayMs = t.Range(1, cfg.TimeoutPropose)
	case 2:
		cfg.DropPct = t.Range(10, 35)
		cfg.DupPct = t.Range(0, 15)
		cfg.MaxDelayMs = t.Range(cfg.TimeoutPropose, 3*cfg.TimeoutPropose)
	}
	cfg.Partition = t.Bool(1, 4)
	cfg.Reorder = cfg.MaxDelayMs > 0 && t.Bool(1, 3)
	cfg.Crashes = t.Bool(1, 4)
	cfg.Skew = t.Bool(1, 2)
	cfg.PermissivePV = !cfg.Crashes && t.Bool(1, 4)
	cfg.GST = time.Duration(t.Range(2, 40)) * time.Second
	// a stall longer than the 15-minute recover timeout: the recover path
	// (validator set switch, recover-typed proposals) runs
	stallOdds := 60
	if thorough {
		stallOdds = 12
	}
	if mode == ModeHostile && !thorough {
		stallOdds = 40 // a long stall costs ~20x an ordinary hostile run
	}
	if t.Int(stallOdds) == 0 {
		cfg.LongStall = time.Duration(t.Range(15*60+20, 17*60)) * time.Second
		cfg.GST = cfg.LongStall + time.Duration(t.Range(2, 20))*time.Second
		cfg.Horizon = cfg.GST + 8*time.Minute
		cfg.MaxEvents = 400000
		cfg.Crashes = false
		cfg.Partition = false
		if cfg.GossipMs < 150 {
			cfg.GossipMs = 150
		}
	}
	// voting powers: unequal
	cfg.Powers = make([]int64, cfg.N)
	switch t.Int(4) {
	case 3:
		// all ones: floor(total*2/3) is reachable by a subset for every N
		for i := range cfg.Powers {
			cfg.Powers[i] = 1
		}
	case 0:
		for i := range cfg.Powers {
			cfg.Powers[i] = 10
		}
	case 1:
		for i := range cfg.Powers {
			cfg.Powers[i] = int64(t.Range(1, 20))
		}
	case 2:
		for i := range cfg.Powers {
			cfg.Powers[i] = int64(1 + i*3)
		}
	}
	// Byzantine validators: strictly less than 1/3 of the total power
	if mode == ModeSigner {
		// restarts are the point: real WAL, several crashes, WAL damage at restart
		cfg.UseWAL = true
		cfg.Crashes = true
		cfg.PermissivePV = false
		cfg.LongStall = 0
		cfg.WALDamage = true
		if cfg.GST < 15*time.Second {
			cfg.GST = 15 * time.Second
		}
	}
	if mode == ModeWALReplay {
		// restarts over a damaged WAL are the point: real WAL, several crashes
		cfg.UseWAL = true
		cfg.Crashes = true
		cfg.PermissivePV = false
		cfg.LongStall = 0
		cfg.WALDamage = false
		cfg.Horizon = cfg.GST + 8*time.Minute
		if cfg.GST < 12*time.Second {
			cfg.GST = 12 * time.Second
		}
	}
	if mode == ModeHostile {
		cfg.MaxEvents *= 4 // hostile deliveries are events too
		// one hostile peer holding a validator key: minimal power in half of the
		// runs, otherwise an ordinary share (< 1/3) so that it gets proposer turns
		if t.Bool(1, 2) {
			cfg.Powers[cfg.N-1] = 1
		} else {
			var sum int64
			for _, p := range cfg.Powers[:cfg.N-1] {
				sum += p
			}
			cfg.Powers[cfg.N-1] = sum / int64(cfg.N-1)
			for 3*cfg.Powers[cfg.N-1] >= sum+cfg.Powers[cfg.N-1] && cfg.Powers[cfg.N-1] > 1 {
				cfg.Powers[cfg.N-1]--
			}
		}
		cfg.NByz = 1
		cfg.ByzKinds = []string{"hostile"}
		cfg.Crashes = false
	}
	if mode == ModeAgreement || mode == ModeValidation || mode == ModeProposer || mode == ModeParts {
		want := t.Pick(3, 6, 2) // 0, 1 or 2 Byzantine validators
		if mode == ModeParts && want == 0 {
			want = 1
		}
		if mode == ModeValidation && want == 0 {
			want = 1
		}
		total := int64(0)
		for _, p := range cfg.Powers {
			total += p
		}
		byzPower := int64(0)
		for k := 0; k < want && k < cfg.N-1; k++ {
			idx := cfg.N - 1 - k
			p := cfg.Powers[idx]
			if 3*(byzPower+p) >= total {
				// shrink this validator's power until the bound holds
				for p > 1 && 3*(byzPower+p) >= total-cfg.Powers[idx]+p {
					p--
				}
				nt := total - cfg.Powers[idx] + p
				if 3*(byzPower+p) >= nt {
					break
				}
				total = nt
				cfg.Powers[idx] = p
			}
			byzPower += p
			cfg.NByz++
		}
		if mode == ModeAgreement && t.Int(5) == 0 {
			// the scripted delivery adversary: four equal validators, a quiet
			// network it fully controls, equal timeouts
			cfg.N, cfg.NByz = 4, 1
			cfg.Powers = []int64{10, 10, 10, 10}
			cfg.ByzKinds = []string{"starve"}
			cfg.DropPct, cfg.DupPct, cfg.MaxDelayMs = 0, 0, 0
			cfg.Partition, cfg.Crashes, cfg.Skew, cfg.Reorder = false, false, false, false
			cfg.LongStall = 0
			cfg.Horizon = 10 * time.Minute
			if cfg.MaxEvents > 20000 {
				cfg.MaxEvents = 20000
			}
			if cfg.GST > 40*time.Second {
				cfg.GST = 10 * time.Second
			}
			if cfg.Heights < 3 {
				cfg.Heights = 3
			}
			return cfg
		}
		kinds := []string{"silent", "equivocate-votes", "equivocate-proposals", "selective", "amnesia-helper"}
		for k := 0; k < cfg.NByz; k++ {
			kind := kinds[t.Int(len(kinds))]
			if mode == ModeValidation && k == 0 {
				kind = "catalogue"
			}
			if mode == ModeParts && k == 0 {
				// two different valid blocks for one round: a node that holds one of
				// them completely sees a polka for the other and has to re-target
				// its part set
				kind = "equivocate-proposals"
			}
			cfg.ByzKinds = append(cfg.ByzKinds, kind)
		}
	}
	if cfg.Crashes {
		// A node that restarts without its WAL has forgotten what it voted for
		// and locked on in the current height: it is an amnesiac, i.e. faulty,
		// validator, and with a Byzantine one beside it the < 1/3 assumption of
		// the safety argument is gone (a disagreement was reached that way in the
		// thorough tier of C12). linkchain nodes always run with the WAL, so
		// crash runs do too.
		cfg.UseWAL = true
	}
	return cfg
}

func seededKey(tag string, i int, seed uint64) crypto.PrivKeyEd25519 {
	return crypto.GenPrivKeyEd25519FromSecret([]byte(fmt.Sprintf("verif-%s-%d-%d", tag, i, seed)))
}

// build creates genesis and the nodes.
func (cl *Cluster) build() error {
	c := cl.c
	seed := c.Tape.Seed()
	cfg := cl.cfg
	gen := &simnode.GenesisSpec{ChainID: "verif-chain", IsTrie: cfg.IsTrie, PartSize: cfg.PartSize}
	for i := 0; i < cfg.N; i++ {
		var cb common.Address
		copy(cb[:], crypto.Keccak256([]byte(fmt.Sprintf("coinbase-%d", i)))[:20])
		gen.Vals = append(gen.Vals, simnode.ValKey{Priv: seededKey("val", i, seed), Power: cfg.Powers[i], CoinBase: cb})
	}
	for i := 0; i < 4; i++ {
		gen.Alloc = append(gen.Alloc, simnode.Alloc{Addr: userAddr(i), Balance: new(big.Int).Mul(big.NewInt(1e18), big.NewInt(1000000))})
	}
	cl.gen = gen
	cl.orc = newOracle(cl)

	base := os.Getenv("VERIF_SCRATCH")
	if base == "" {
		base = os.TempDir()
	}
	cl.scratch = filepath.Join(base, fmt.Sprintf("run-%d", seed))
	os.RemoveAll(cl.scratch)
	if err := os.MkdirAll(cl.scratch, 0755); err != nil {
		return err
	}

	nHonest := cfg.N - cfg.NByz
	for i := 0; i < cfg.N; i++ {
		n := &Node{cl: cl, idx: i, id: fmt.Sprintf("node%d", i), key: gen.Vals[i], skewNum: 8, useWAL: cfg.UseWAL}
		n.dir = filepath.Join(cl.scratch, n.id)
		os.MkdirAll(n.dir, 0755)
		if cfg.Skew {
			n.skewNum = cl.c.Tape.Fork("config").Range(4, 16)
		}
		cl.nodes = append(cl.nodes, n)
	}
	for i := 0; i < cfg.N; i++ {
		n := cl.nodes[i]
		n.disk = simdb.NewDisk(filepath.Join(n.dir, "data"))
		if err := gen.Install(n.disk); err != nil {
			return fmt.Errorf("genesis: %v", err)
		}
	}
	for i := 0; i < nHonest; i++ {
		if err := cl.nodes[i].start(); err != nil {
			return fmt.Errorf("start node %d: %v", i, err)
		}
		synctest.Wait()
	}
	for k := 0; k < cfg.NByz; k++ {
		idx := nHonest + k
		b, err := newByz(cl, cl.nodes[idx], cfg.ByzKinds[k])
		if err != nil {
			return err
		}
		cl.byz = append(cl.byz, b)
	}
	return nil
}

func userAddr(i int) common.Address {
	return userKey(i).address()
}

func (cl *Cluster) honest() []*Node { return cl.nodes[:cl.cfg.N-cl.cfg.NByz] }

func (cl *Cluster) isByz(i int) bool { return i >= cl.cfg.N-cl.cfg.NByz }

// connected reports whether a message from i can currently reach j.
func (cl *Cluster) connected(i, j int) bool {
	if cl.parts == nil {
		return true
	}
	gi, gj := -1, -1
	for g, grp := range cl.parts {
		for _, x := range grp {
			if x == i {
				gi = g
			}
			if x == j {
				gj = g
			}
		}
	}
	return gi == gj
}

func chanOf(msg cs.ConsensusMessage) byte {
	switch msg.(type) {
	case *cs.VoteMessage:
		return cs.VoteChannel
	case *cs.ProposalMessage, *cs.BlockPartMessage, *cs.ProposalPOLMessage:
		return cs.DataChannel
	case *cs.VoteSetBitsMessage:
		return cs.VoteSetBitsChannel
	}
	return cs.StateChannel
}

// send gives a message from i to j a fate and schedules its delivery.
func (cl *Cluster) send(from, to int, msg cs.ConsensusMessage, why string) {
	if cl.adv != nil && cl.adv.intercept(cl, to, msg) {
		return
	}
	bz := ser.MustEncodeToBytesWithType(msg)
	cl.sendBytes(from, to, chanOf(msg), bz, why)
	cl.orc.sent(from, to, msg)
}

func (cl *Cluster) sendBytes(from, to int, chID byte, bz []byte, why string) {
	cfg := cl.cfg
	faulty := cl.now < cfg.GST
	if cl.mode == ModeHostile && !cl.isByz(from) {
		if len(cl.recent) < 32 {
			cl.recent = append(cl.recent, recentMsg{chID, bz})
		} else {
			cl.recent[int(cl.seq)%32] = recentMsg{chID, bz}
		}
	}
	if !cl.connected(from, to) {
		cl.c.Fault("partition-drop")
		return
	}
	delay := time.Duration(1+cl.net.Int(5)) * time.Millisecond
	if faulty {
		if cfg.DropPct > 0 && cl.net.Int(100) < cfg.DropPct {
			cl.c.Fault("drop")
			return
		}
		if cfg.MaxDelayMs > 0 {
			d := cl.net.Int(cfg.MaxDelayMs + 1)
			if d > 20 {
				cl.c.Fault("delay")
			}
			delay += time.Duration(d) * time.Millisecond
		}
		if cfg.DupPct > 0 && cl.net.Int(100) < cfg.DupPct {
			cl.c.Fault("duplicate")
			cl.push(&event{at: cl.now + delay + time.Duration(1+cl.net.Int(200))*time.Millisecond, kind: evDeliver, node: to, from: from, chID: chID, msg: bz, desc: why + "(dup)"})
		}
	}
	at := cl.now + delay
	if !(faulty && cfg.Reorder) {
		// one connection channel delivers in order
		if cl.lastAt == nil {
			cl.lastAt = map[[3]int]time.Duration{}
		}
		k := [3]int{from, to, int(chID)}
		if last, ok := cl.lastAt[k]; ok && at <= last {
			at = last + time.Microsecond
		}
		cl.lastAt[k] = at
	} else if delay > 20*time.Millisecond {
		cl.c.Fault("reorder-possible")
	}
	cl.push(&event{at: at, kind: evDeliver, node: to, from: from, chID: chID, msg: bz, desc: why})
}

// flush drains the outboxes of all live honest nodes: every own message
// (proposal, block parts, votes) is offered to every peer.
func (cl *Cluster) flush() {
	cl.completeFrozen()
	for _, n := range cl.honest() {
		if len(n.outbox) == 0 {
			continue
		}
		out := n.outbox
		n.outbox = nil
		for _, m := range out {
			cl.orc.own(n, m)
			for j := range cl.nodes {
				if j != n.idx {
					cl.send(n.idx, j, m, "own")
				}
			}
		}
	}
}

// settle waits for quiescence after an action and processes its effects.
func (cl *Cluster) settle() {
	synctest.Wait()
	cl.flush()
}

// advance moves virtual time to at.
func (cl *Cluster) advance(at time.Duration) {
	if at > cl.now {
		time.Sleep(at - cl.now)
		cl.now = at
		synctest.Wait()
		cl.flush() // anything background timers of the code under test triggered
	}
}

// Run executes the run; the caller is inside a synctest bubble.
func (cl *Cluster) Run() {
	c := cl.c
	cl.start = time.Now()
	if err := cl.build(); err != nil {
		c.HarnessTrouble("build: %v", err)
		return
	}
	defer cl.teardown()
	cl.flush()
	cl.scheduleBackground()

	cfg := cl.cfg
	for cl.q.Len() > 0 && cl.events < cfg.MaxEvents && cl.now < cfg.Horizon {
		if c.Failed() {
			break
		}
		e := heap.Pop(&cl.q).(*event)
		cl.advance(e.at)
		if e.kind != evGossip {
			cl.events++
			c.Event(1)
		} else {
			c.Event(0) // progress beat for the hang detector
		}
		cl.dispatch(e)
		cl.settle()
		cl.orc.checkAfterEvent(e)
		if cl.done() {
			break
		}
	}
	c.SimTime(cl.now)
	cl.finish()
}

func (cl *Cluster) dispatch(e *event) {
	switch e.kind {
	case evDeliver:
		cl.deliver(e)
	case evTimer:
		n := cl.nodes[e.node]
		if n.alive && n.timer != nil && n.timer.at >= 0 && n.timerGen == e.gen && !n.failed {
			ti := n.timer.ti
			n.timerFired()
			n.ticker.Fire(ti)
		}
	case evGossip:
		cl.gossip(e.from, e.node)
	default:
		if e.fn != nil {
			e.fn()
		}
	}
}

func (n *Node) timerFired() { n.timer = &pendingTimer{ti: n.timer.ti, at: -1} }

func (cl *Cluster) deliver(e *event) {
	to := cl.nodes[e.node]
	if cl.isByz(e.node) {
		for _, b := range cl.byz {
			if b.n.idx == e.node {
				b.receive(e.from, e.chID, e.msg)
			}
		}
		return
	}
	if !to.alive || to.failed {
		return
	}
	peer := to.peers[e.from]
	cl.orc.delivered(to, e.from, e.chID, e.msg)
	if e.hostile != nil {
		e.fpBefore = stateFinger(to)
		e.allocBefore = totalAlloc()
	}
	if e.hostile != nil && e.viaConn {
		// the real connection layer around the reactor: a real MConnection whose
		// receive routine calls Receive. What a panic in Receive costs (the peer,
		// not the process) is decided by the code under test, not by a recover of
		// the simulator; a process that dies is classified by the kernel (OnCrash)
		if cl.deliverViaConn(to, peer, e.chID, e.msg) {
			cl.c.Probe("receive-panic(peer dropped by the real connection)")
		}
		return
	}
	site, msg, panicked := kernel.Try(func() { to.reactor.Receive(e.chID, peer, e.msg) })
	if panicked {
		// a panic inside Receive is recovered by the connection layer in the
		// real node (the peer is dropped); counted, not a violation here
		cl.c.Probe("receive-panic(peer dropped)")
		cl.orc.receivePanic(to, e, site, msg)
	}
}

// scheduleBackground arms gossip, faults and Byzantine actions.
func (cl *Cluster) scheduleBackground() {
	cfg := cl.cfg
	n := cfg.N
	for i := 0; i < n; i++ {
		for j := 0; j < n; j++ {
			if i != j && !cl.isByz(i) {
				off := time.Duration(cl.sched.Int(cfg.GossipMs)+1) * time.Millisecond
				cl.push(&event{at: off, kind: evGossip, from: i, node: j})
			}
		}
	}
	f := cl.fault
	if cfg.Partition {
		at := time.Duration(f.Range(0, int(cfg.GST/time.Millisecond))) * time.Millisecond
		dur := time.Duration(f.Range(200, 8000)) * time.Millisecond
		cl.push(&event{at: at, kind: evPartition, fn: func() { cl.partition() }})
		cl.push(&event{at: at + dur, kind: evHeal, fn: func() { cl.heal() }})
	}
	if cfg.Crashes {
		k := f.Range(1, 3)
		if cl.mode == ModeSigner || cl.mode == ModeWALReplay {
			k = f.Range(2, 6)
		}
		for x := 0; x < k; x++ {
			at := time.Duration(f.Range(100, int(cfg.GST/time.Millisecond)+100)) * time.Millisecond
			down := time.Duration(f.Range(100, 6000)) * time.Millisecond
			who := f.Int(len(cl.honest()))
			cl.push(&event{at: at, kind: evCrash, node: who, fn: func() { cl.crash(who, down) }})
		}
	}
	if cfg.LongStall > 0 {
		at := time.Duration(f.Range(500, 20000)) * time.Millisecond
		cl.push(&event{at: at, kind: evPartition, fn: func() {
			cl.parts = nil
			for i := 0; i < cfg.N; i++ {
				cl.parts = append(cl.parts, []int{i})
			}
			cl.c.Fault("isolate-all(long stall)")
			cl.tracef("every node isolated for %v", cfg.LongStall)
		}})
		cl.push(&event{at: at + cfg.LongStall, kind: evHeal, fn: func() { cl.heal() }})
	}
	// heal everything at GST
	cl.push(&event{at: cfg.GST, kind: evHeal, fn: func() { cl.heal() }})
	for _, b := range cl.byz {
		b.schedule()
	}
	cl.modeBackground()
}

func (cl *Cluster) partition() {
	idx := make([]int, cl.cfg.N)
	for i := range idx {
		idx[i] = i
	}
	cl.fault.Shuffle(len(idx), func(i, j int) { idx[i], idx[j] = idx[j], idx[i] })
	cut := cl.fault.Range(1, cl.cfg.N-1)
	a, b := append([]int(nil), idx[:cut]...), append([]int(nil), idx[cut:]...)
	sort.Ints(a)
	sort.Ints(b)
	cl.parts = [][]int{a, b}
	cl.c.Fault("partition")
	cl.tracef("partition %v | %v", a, b)
}

func (cl *Cluster) heal() {
	if cl.parts != nil {
		cl.parts = nil
		cl.c.Fault("heal")
		cl.tracef("heal")
	}
}

// done reports whether every live honest node has committed the target height.
func (cl *Cluster) done() bool {
	target := uint64(cl.cfg.Heights)
	if cl.now < cl.cfg.GST && (cl.cfg.Partition || cl.cfg.Crashes || cl.cfg.LongStall > 0) {
		// keep going until scheduled faults have had their chance
		return false
	}
	for _, n := range cl.honest() {
		if !n.alive {
			return false
		}
		if n.chain.BlockStore.Height() < target {
			return false
		}
		if cl.mode == ModeValidation && cl.catAt > 0 && n.lastProg <= cl.catAt {
			return false // wait for progress after the Byzantine turn
		}
		if cl.mode == ModeHostile && (cl.now < cl.cfg.GST || n.lastProg <= cl.hostileAt) {
			return false // hostile traffic still flowing / no progress after it yet
		}
	}
	return true
}

func (cl *Cluster) teardown() {
	for _, n := range cl.nodes {
		if n.alive {
			kernel.Try(func() { n.stop() })
		}
	}
	for _, b := range cl.byz {
		b.close()
	}
	synctest.Wait()
	os.RemoveAll(cl.scratch)
}
