package cluster

import (
	"crypto/ecdsa"
	"fmt"
	"math/big"
	"os"
	"os/exec"
	"regexp"
	"strings"
	"time"

	"github.com/lianxiangcloud/linkchain/libs/common"
	"github.com/lianxiangcloud/linkchain/libs/crypto"
	"github.com/lianxiangcloud/linkchain/types"

	"verif/sim/simdb"
)

type valRef struct{ pk crypto.PubKey }

func (v *valRef) PubKey() crypto.PubKey { return v.pk }

// ---------------------------------------------------------------- users

type user struct {
	priv *ecdsa.PrivateKey
}

var userCache = map[int]*user{}

func userKey(i int) *user {
	if u, ok := userCache[i]; ok {
		return u
	}
	d := new(big.Int).SetBytes(crypto.Keccak256([]byte(fmt.Sprintf("verif-user-%d", i))))
	d.Mod(d, new(big.Int).Sub(crypto.S256().Params().N, big.NewInt(2)))
	d.Add(d, big.NewInt(1))
	priv := new(ecdsa.PrivateKey)
	priv.PublicKey.Curve = crypto.S256()
	priv.D = d
	priv.PublicKey.X, priv.PublicKey.Y = crypto.S256().ScalarBaseMult(d.Bytes())
	u := &user{priv: priv}
	userCache[i] = u
	return u
}

func (u *user) address() common.Address { return crypto.PubkeyToAddress(u.priv.PublicKey) }

// transfer builds a signed plain transfer.
func (u *user) transfer(nonce uint64, to common.Address, amount *big.Int) (types.Tx, error) {
	gasLimit := types.CalNewAmountGas(amount, types.EverLiankeFee)
	tx := types.NewTransaction(nonce, to, amount, gasLimit, big.NewInt(types.GasPrice), nil)
	if err := tx.Sign(types.GlobalSTDSigner, u.priv); err != nil {
		return nil, err
	}
	return tx, nil
}

// ---------------------------------------------------------------- crash / restart

// crash stops node who at an event boundary, keeping exactly what is durable
// at this instant: the simulated disk image and the node's real files (WAL,
// validator key file) as they are on the file system now.
func (cl *Cluster) crash(who int, down time.Duration) {
	n := cl.nodes[who]
	if !n.alive || n.failed {
		return
	}
	cl.c.Fault("crash")
	cl.tracef("crash node%d for %v", who, down)
	img := n.disk.Snapshot()
	snapDir := n.dir + ".crash"
	os.RemoveAll(snapDir)
	if out, err := exec.Command("cp", "-a", n.dir, snapDir).CombinedOutput(); err != nil {
		cl.c.HarnessTrouble("cp: %v %s", err, out)
		return
	}
	n.stop()
	// discard whatever the graceful stop flushed
	os.RemoveAll(n.dir)
	os.Rename(snapDir, n.dir)
	n.disk = simdb.NewDiskFromImage(img, n.disk.Dir())
	cl.push(&event{at: cl.now + down, kind: evRestart, node: who, fn: func() { cl.restart(who) }})
}

func (cl *Cluster) restart(who int) {
	n := cl.nodes[who]
	if n.alive {
		return
	}
	n.incarn++
	cl.c.Fault("restart")
	cl.tracef("restart node%d", who)
	var err error
	site, msg, panicked := kernelTry(func() { err = n.start() })
	if panicked {
		cl.c.Violate("restart-panic", "restart-panic/"+site, "node %d panicked on restart: %s", who, msg)
		return
	}
	if err != nil {
		cl.c.Violate("restart-refused", "restart-refused", "node %d refused to start after a crash: %v", who, err)
	}
}

var frameRe = regexp.MustCompile(`github\.com/lianxiangcloud/linkchain/[A-Za-z0-9_/]+\.(\(\*?[A-Za-z0-9_]+\)\.)?[A-Za-z0-9_]+`)

// firstRepoFrame extracts the first linkchain frame below the panic from a
// logged stack (used as the stable part of a violation key).
func firstRepoFrame(s string) string {
	idx := strings.Index(s, "panic(")
	if idx < 0 {
		idx = 0
	}
	m := frameRe.FindAllString(s[idx:], -1)
	for _, f := range m {
		if strings.Contains(f, "receiveRoutine") || strings.Contains(f, "/libs/log") {
			continue
		}
		return strings.TrimPrefix(f, "github.com/lianxiangcloud/linkchain/")
	}
	return "unknown"
}
