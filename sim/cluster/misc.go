package cluster

import (
	"crypto/ecdsa"
	"fmt"
	"math/big"
	"os"
	"path/filepath"
	"regexp"
	"sort"
	"strings"
	"time"

	"github.com/lianxiangcloud/linkchain/libs/common"
	"github.com/lianxiangcloud/linkchain/libs/crypto"
	"github.com/lianxiangcloud/linkchain/types"

	"verif/sim/kernel"
	"verif/sim/simdb"
)

type valRef struct{ pk crypto.PubKey }

func (v *valRef) PubKey() crypto.PubKey { return v.pk }

// ---------------------------------------------------------------- users

type user struct {
	priv *ecdsa.PrivateKey
}

var userCache = map[int]*user{}

func userKey(i int) *user {
	if u, ok := userCache[i]; ok {
		return u
	}
	d := new(big.Int).SetBytes(crypto.Keccak256([]byte(fmt.Sprintf("verif-user-%d", i))))
	d.Mod(d, new(big.Int).Sub(crypto.S256().Params().N, big.NewInt(2)))
	d.Add(d, big.NewInt(1))
	priv := new(ecdsa.PrivateKey)
	priv.PublicKey.Curve = crypto.S256()
	priv.D = d
	priv.PublicKey.X, priv.PublicKey.Y = crypto.S256().ScalarBaseMult(d.Bytes())
	u := &user{priv: priv}
	userCache[i] = u
	return u
}

func (u *user) address() common.Address { return crypto.PubkeyToAddress(u.priv.PublicKey) }

// transfer builds a signed plain transfer.
func (u *user) transfer(nonce uint64, to common.Address, amount *big.Int) (types.Tx, error) {
	gasLimit := types.CalNewAmountGas(amount, types.EverLiankeFee)
	tx := types.NewTransaction(nonce, to, amount, gasLimit, big.NewInt(types.GasPrice), nil)
	if err := tx.Sign(types.GlobalSTDSigner, u.priv); err != nil {
		return nil, err
	}
	return tx, nil
}

// ---------------------------------------------------------------- crash / restart

// crash stops node who, keeping exactly what is durable: the simulated disk
// image and the node's real files (WAL, validator key file) as they are on the
// file system at the crash instant. Two flavours, tape-chosen: at the current
// event boundary, or k database write boundaries later — i.e. inside whatever
// the node does next (typically a commit): the durable image is frozen there,
// the node finishes the event as a zombie whose later writes, signatures and
// messages are discarded, and is then torn down.
func (cl *Cluster) crash(who int, down time.Duration) {
	n := cl.nodes[who]
	if !n.alive || n.failed || n.frozen {
		return
	}
	if cl.mode == ModeSigner && cl.fault.Bool(1, 3) {
		// flavour (c): die at the next signing request, before it is served: the
		// trigger has been logged to the WAL, the vote it causes has not been signed
		cl.tracef("crash node%d armed: at its next signing request, down %v", who, down)
		n.downFor = down
		n.crashAtSign = true
		n.doubleTap = cl.fault.Bool(2, 3)
		n.afterOwnProposal = cl.fault.Bool(1, 2)
		n.sawOwnProposal = false
		return
	}
	if cl.fault.Bool(1, 2) {
		k := 1 + cl.fault.Int(40)
		cl.tracef("crash node%d armed: %d write boundaries from now, down %v", who, k, down)
		n.downFor = down
		snapDir := n.dir + ".crash"
		os.RemoveAll(snapDir)
		n.disk.OnFreeze = func() {
			// called at the freeze instant on the node's own goroutine
			copyDir(n.dir, snapDir)
			n.frozen = true
		}
		n.disk.FreezeAt = n.disk.Seq() + k
		// if the node writes nothing for a while, crash it at an event boundary instead
		cl.push(&event{at: cl.now + 3*time.Second, kind: evCrash, node: who, fn: func() {
			if n.alive && !n.frozen && n.disk.Frozen == nil {
				n.disk.FreezeAt = 0
				n.disk.OnFreeze = nil
				cl.crashNow(who, down)
			}
		}})
		return
	}
	cl.crashNow(who, down)
}

func (cl *Cluster) crashNow(who int, down time.Duration) {
	n := cl.nodes[who]
	if !n.alive || n.failed {
		return
	}
	cl.c.Fault("crash")
	cl.tracef("crash node%d for %v", who, down)
	img := n.disk.Snapshot()
	snapDir := n.dir + ".crash"
	os.RemoveAll(snapDir)
	copyDir(n.dir, snapDir)
	n.stop()
	// discard whatever the graceful stop flushed
	os.RemoveAll(n.dir)
	os.Rename(snapDir, n.dir)
	n.disk = simdb.NewDiskFromImage(img, n.disk.Dir())
	cl.push(&event{at: cl.now + down, kind: evRestart, node: who, fn: func() { cl.restart(who) }})
}

// completeFrozen tears down nodes whose durable image was frozen during the
// last event (crash inside an operation).
func (cl *Cluster) completeFrozen() {
	for _, n := range cl.honest() {
		if !n.frozen || !n.alive {
			continue
		}
		cl.c.Fault("crash-inside-write-sequence")
		cl.tracef("crash node%d inside a write sequence at boundary %d", n.idx, n.disk.Frozen.Seq)
		img := n.disk.Frozen
		n.outbox = nil
		n.stop()
		snapDir := n.dir + ".crash"
		os.RemoveAll(n.dir)
		os.Rename(snapDir, n.dir)
		n.disk = simdb.NewDiskFromImage(img, n.disk.Dir())
		n.frozen = false
		who, down := n.idx, n.downFor
		cl.push(&event{at: cl.now + down, kind: evRestart, node: who, fn: func() { cl.restart(who) }})
	}
}

// copyDir copies a directory tree (regular files only).
func copyDir(src, dst string) {
	filepath.Walk(src, func(p string, info os.FileInfo, err error) error {
		if err != nil {
			return nil
		}
		rel, _ := filepath.Rel(src, p)
		to := filepath.Join(dst, rel)
		if info.IsDir() {
			os.MkdirAll(to, 0755)
			return nil
		}
		if b, err := os.ReadFile(p); err == nil {
			os.WriteFile(to, b, info.Mode())
		}
		return nil
	})
}

func (cl *Cluster) restart(who int) {
	n := cl.nodes[who]
	if n.alive {
		return
	}
	n.incarn++
	if n.walGone {
		// second half of a double tap: the WAL did not survive
		n.walGone = false
		os.RemoveAll(filepath.Dir(n.walFile()))
		cl.c.Fault("wal-lost")
		cl.tracef("node%d: WAL lost (double tap)", n.idx)
	} else if cl.cfg.WALDamage && !n.doubleTap && cl.fault.Bool(1, 2) {
		cl.damageWAL(n)
	}
	var rj *replayJudge
	if cl.mode == ModeWALReplay && !n.noReplayDamage {
		rj = cl.damageForReplay(n)
	}
	n.noReplayDamage = false
	cl.c.Fault("restart")
	cl.tracef("restart node%d", who)
	var err error
	n.replayMsgs, n.replayDone, n.replayErr = 0, false, ""
	site, msg, panicked := kernelTry(func() { err = n.start() })
	if rj != nil {
		if cl.judgeReplay(n, rj, panicked, site, msg, err) {
			return
		}
	}
	if !panicked && err == nil && n.doubleTap {
		// double tap: the node dies again right after its WAL catch-up replay (which
		// may have signed votes in replay mode), before anything newer is signed,
		// and loses its WAL: only the signer's own record stands between it and a
		// conflicting signature
		n.doubleTap = false
		n.walGone = true
		cl.c.Fault("double-tap-after-replay")
		cl.push(&event{at: cl.now + time.Millisecond, kind: evCrash, node: who, fn: func() { cl.crashNow(who, 200*time.Millisecond) }})
	}
	if panicked || err != nil {
		// whether a node can restart from any durable image is C13's subject;
		// here the node simply stays down
		cl.c.Probe("restart-failed")
		cl.tracef("node%d failed to restart: %v %s %s", who, err, site, msg)
		n.alive = false
	}
}

var frameRe = regexp.MustCompile(`github\.com/lianxiangcloud/linkchain/[A-Za-z0-9_/]+\.(\(\*?[A-Za-z0-9_]+\)\.)?[A-Za-z0-9_]+`)

// firstRepoFrame extracts the first linkchain frame below the panic from a
// logged stack (used as the stable part of a violation key).
func firstRepoFrame(s string) string {
	idx := strings.Index(s, "panic(")
	if idx < 0 {
		idx = 0
	}
	m := frameRe.FindAllString(s[idx:], -1)
	for _, f := range m {
		if strings.Contains(f, "receiveRoutine") || strings.Contains(f, "/libs/log") {
			continue
		}
		return strings.TrimPrefix(f, "github.com/lianxiangcloud/linkchain/")
	}
	return "unknown"
}

// HostileHang classifies a hung run of the hostile-peer rig from a dump of
// all goroutine stacks: if goroutines of the code under test sit in a mutex
// acquisition while the simulator waits for quiescence, a lock was leaked (in
// the real node: by a handler that panicked inside the connection layer's
// recover while holding it) and consensus is halted for good — the C16
// violation "a message from a single peer halted the node". Anything else is
// left to the watchdog (harness trouble).
func HostileHang(stacks string) *kernel.Violation {
	var sites []string
	for _, g := range strings.Split(stacks, "\n\n") {
		head := g
		if i := strings.Index(g, "\n"); i > 0 {
			head = g[:i]
		}
		// a goroutine of the bubble parked in a mutex acquisition (the driver
		// itself counts: it reads the node's round state under the node's lock)
		if !strings.Contains(head, "synctest bubble") || !(strings.Contains(head, "[sync.Mutex.Lock") || strings.Contains(head, "[sync.RWMutex")) {
			continue
		}
		for _, f := range frameRe.FindAllString(g, -1) {
			if strings.Contains(f, "/libs/log") {
				continue
			}
			sites = append(sites, strings.TrimPrefix(f, "github.com/lianxiangcloud/linkchain/"))
			break
		}
	}
	if len(sites) == 0 {
		return nil
	}
	sort.Strings(sites)
	return &kernel.Violation{Class: "halted", Key: "C16/halted/lock-never-released/" + sites[0],
		Message: fmt.Sprintf("after hostile peer traffic %d goroutine(s) of the node wait forever for a mutex nobody will release (first: %s): the consensus routine is halted", len(sites), sites[0])}
}

// freezeNow takes the durable image of node n at this very instant (called on
// the node's own goroutine, e.g. from the signer wrapper): the node is a
// zombie from here on and is torn down when the event has settled.
func (n *Node) freezeNow() {
	if n.frozen {
		return
	}
	snapDir := n.dir + ".crash"
	os.RemoveAll(snapDir)
	copyDir(n.dir, snapDir)
	n.disk.Frozen = n.disk.Snapshot()
	n.frozen = true
}

// damageWAL models a consensus WAL that did not survive the crash intact: the
// newest file is cut at a tape-chosen offset, or the whole WAL is gone. What
// the validator key may sign afterwards is FilePV's business alone.
func (cl *Cluster) damageWAL(n *Node) {
	dir := filepath.Dir(n.walFile())
	switch cl.fault.Int(3) {
	case 0:
		os.RemoveAll(dir)
		cl.c.Fault("wal-lost")
		cl.tracef("node%d: WAL lost", n.idx)
	default:
		b, err := os.ReadFile(n.walFile())
		if err != nil || len(b) == 0 {
			return
		}
		cut := cl.fault.Int(len(b))
		os.WriteFile(n.walFile(), b[:cut], 0600)
		cl.c.Fault("wal-truncated")
		cl.tracef("node%d: WAL head cut at %d of %d", n.idx, cut, len(b))
	}
}
