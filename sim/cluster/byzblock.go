package cluster

import (
	"bytes"
	"fmt"
	"time"

	cs "github.com/lianxiangcloud/linkchain/consensus"
	cstypes "github.com/lianxiangcloud/linkchain/consensus/types"
	"github.com/lianxiangcloud/linkchain/libs/common"
	"github.com/lianxiangcloud/linkchain/types"
)

// buildBlock makes an application-valid, fully valid proposal block for
// (height of rs) the way createProposalBlock does, borrowing honest node h's
// application replica (CreateBlock/PreRunBlock do not change the replica).
// variant changes the timestamp so that different variants are different blocks.
func (b *byzActor) buildBlock(h *Node, rs *cstypes.RoundState, variant int) (*types.Block, *types.Commit) {
	H := rs.Height
	var commit *types.Commit
	if H == types.BlockHeightOne {
		commit = &types.Commit{}
	} else if rs.LastCommit != nil && rs.LastCommit.HasTwoThirdsMajority() {
		commit = rs.LastCommit.MakeCommit()
	} else {
		return nil, nil
	}
	status := h.cs.GetState()
	if status.LastBlockHeight+1 != H || h.chain.App.Height()+1 != H {
		return nil, nil
	}
	h.chain.RegisterRate()
	block := h.chain.App.CreateBlock(H, status.ConsensusParams.BlockSize.MaxTxs, status.ConsensusParams.BlockSize.MaxGas, uint64(time.Now().Unix())+uint64(variant))
	if block == nil {
		return nil, nil
	}
	block.Header.Coinbase = b.n.key.CoinBase
	if H > types.BlockHeightOne && !status.LastRecover {
		lastRound := commit.FirstPrecommit().Round
		fvi := &types.FaultValidatorsEvidence{BlockHeight: H - 1, Round: lastRound}
		if lastRound == 0 {
			fvi.Proposer = rs.LastValidators.GetProposer().PubKey
		} else {
			fvi.FaultVal = rs.LastValidators.GetProposer().PubKey
			vs := rs.LastValidators.Copy()
			vs.IncrementAccum(lastRound)
			fvi.Proposer = vs.GetProposer().PubKey
		}
		block.AddEvidence([]types.Evidence{fvi})
	}
	block.Recover = 0
	block.ChainID = status.ChainID
	block.LastCommit = commit
	block.LastBlockID = status.LastBlockID
	block.LastCommitHash = block.LastCommit.Hash()
	block.EvidenceHash = block.Evidence.Hash()
	block.ConsensusHash = common.BytesToHash(status.ConsensusParams.Hash())
	block.ValidatorsHash = common.BytesToHash(status.Validators.Hash())
	if _, _, panicked := kernelTry(func() { h.chain.App.PreRunBlock(block) }); panicked {
		return nil, nil
	}
	return block, commit
}

func (b *byzActor) signProposal(H uint64, R int, psh types.PartSetHeader, polRound int, polID types.BlockID) *types.Proposal {
	p := types.NewProposal(H, R, psh, polRound, polID)
	p.Type = types.ProposalTypeNormal
	sig, err := b.n.key.Priv.Sign(p.SignBytes(b.cl.gen.ChainID))
	if err != nil {
		return nil
	}
	p.Signature = sig
	return p
}

// sendBlock sends proposal + all parts of block to node h.
func (b *byzActor) sendBlock(h *Node, H uint64, R int, block *types.Block, why string) types.BlockID {
	return b.sendBlockPOL(h, H, R, block, why, -1, types.BlockID{})
}

// sendBlockPOL is sendBlock with a proof-of-lock round claimed in the proposal.
func (b *byzActor) sendBlockPOL(h *Node, H uint64, R int, block *types.Block, why string, polRound int, polID types.BlockID) types.BlockID {
	cl := b.cl
	parts := block.MakePartSet(cl.cfg.PartSize)
	p := b.signProposal(H, R, parts.Header(), polRound, polID)
	if p == nil {
		return types.BlockID{}
	}
	cl.send(b.n.idx, h.idx, &cs.ProposalMessage{Proposal: p}, why+"-proposal")
	for i := 0; i < parts.Total(); i++ {
		cl.send(b.n.idx, h.idx, &cs.BlockPartMessage{Height: H, Round: R, Part: parts.GetPart(i)}, why+"-part")
	}
	return types.BlockID{Hash: block.Hash(), PartsHeader: parts.Header()}
}

// proposeAt: if the Byzantine validator is the proposer of node h's current
// round, it proposes — a different valid block to odd and even nodes.
func (b *byzActor) proposeAt(h *Node, rs *cstypes.RoundState, idx int) {
	cl := b.cl
	if !bytes.Equal(rs.Validators.GetProposer().Address, b.n.key.Address()) {
		return
	}
	if rs.Step > cstypes.RoundStepPropose || rs.Proposal != nil {
		return
	}
	key := fmt.Sprintf("prop|%d|%d|%d", h.idx, rs.Height, rs.Round)
	if b.done[key] {
		return
	}
	b.done[key] = true
	block, _ := b.buildBlock(h, rs, 1+h.idx%2)
	if block == nil {
		return
	}
	cl.c.Fault("byz-equivocating-proposal")
	cl.c.Probe("byz-proposer-turn")
	b.sendBlock(h, rs.Height, rs.Round, block, "byz")
}
