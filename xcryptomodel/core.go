// Package xcrypto: pure-Go model of the cgo wrappers around libxcrypto (Monero
// crypto-ops / ringct), substituted for keys.go, rct.go, tlv_call.go and
// ld_linux.go with `go build -overlay` because the C++ library binary is absent
// in this sandbox. See README.md next to this file for what is genuine
// mathematics and what is a stand-in.
package xcrypto

import (
	"crypto/rand"
	"encoding/hex"
	"errors"
	"io"
	"sync"

	"golang.org/x/crypto/sha3"

	"github.com/lianxiangcloud/linkchain/libs/cryptonote/types"
	ed "verif/sim/ed25519x"
)

// ---------------------------------------------------------------------------
// Randomness seam.

var (
	randMu     sync.Mutex
	randReader io.Reader = rand.Reader
)

// SetRand replaces the source of all randomness used by this package (SkGen,
// SkpkGen, GenerateKeys with a zero recovery key, signature nonces). A nil
// reader restores crypto/rand. It exists only in the pure-Go model so that a
// simulator can make the package deterministic.
func SetRand(r io.Reader) {
	randMu.Lock()
	defer randMu.Unlock()
	if r == nil {
		r = rand.Reader
	}
	randReader = r
}

func readRand(b []byte) {
	randMu.Lock()
	defer randMu.Unlock()
	if _, err := io.ReadFull(randReader, b); err != nil {
		panic("xcrypto model: random source failed: " + err.Error())
	}
}

// randomScalar returns a uniformly distributed non-zero scalar (Monero
// random_scalar / skGen).
func randomScalar() *ed.Scalar {
	for {
		var wide [64]byte
		readRand(wide[:])
		s, err := new(ed.Scalar).SetUniformBytes(wide[:])
		if err != nil {
			panic(err)
		}
		if s.Equal(scZero) != 1 {
			return s
		}
	}
}

// ---------------------------------------------------------------------------
// Hashing.

// cnFastHash is Monero's cn_fast_hash: Keccak-256 with the original (pre-SHA3)
// padding.
func cnFastHash(chunks ...[]byte) (out [32]byte) {
	h := sha3.NewLegacyKeccak256()
	for _, c := range chunks {
		h.Write(c)
	}
	h.Sum(out[:0])
	return out
}

// hashToScalar is Monero's hash_to_scalar: cn_fast_hash followed by sc_reduce32.
func hashToScalar(chunks ...[]byte) *ed.Scalar {
	h := cnFastHash(chunks...)
	return scReduce32(&h)
}

func hashKeysToScalar(keys []types.Key) *ed.Scalar {
	h := sha3.NewLegacyKeccak256()
	for i := range keys {
		h.Write(keys[i][:])
	}
	var out [32]byte
	h.Sum(out[:0])
	return scReduce32(&out)
}

// putVarint appends the Monero/LEB128 varint encoding of v.
func putVarint(dst []byte, v uint64) []byte {
	for v >= 0x80 {
		dst = append(dst, byte(v)|0x80)
		v >>= 7
	}
	return append(dst, byte(v))
}

// ---------------------------------------------------------------------------
// Scalars.

var (
	scZero = ed.NewScalar()
	scOne  = mustScalar("0100000000000000000000000000000000000000000000000000000000000000")
	// scInvEight = 1/8 mod l (rctOps INV_EIGHT).
	scInvEight = mustScalar("792fdce229e50661d0da1c7db39dd30700000000000000000000000000000006")
	scEight    = mustScalar("0800000000000000000000000000000000000000000000000000000000000000")
)

func mustScalar(h string) *ed.Scalar {
	b, err := hex.DecodeString(h)
	if err != nil || len(b) != 32 {
		panic("bad scalar constant")
	}
	s, err := new(ed.Scalar).SetCanonicalBytes(b)
	if err != nil {
		panic(err)
	}
	return s
}

// scReduce32 interprets b as a 256-bit little-endian integer and reduces it
// modulo the group order (sc_reduce32).
func scReduce32(b *[32]byte) *ed.Scalar {
	var wide [64]byte
	copy(wide[:32], b[:])
	s, err := new(ed.Scalar).SetUniformBytes(wide[:])
	if err != nil {
		panic(err)
	}
	return s
}

// scCheck reports whether b is a canonical scalar (Monero sc_check(b) == 0).
func scCheck(b *[32]byte) bool { return ed.IsCanonicalScalar(b) }

// scCanonical decodes a canonical scalar or fails.
func scCanonical(b *[32]byte) (*ed.Scalar, error) {
	s, err := new(ed.Scalar).SetCanonicalBytes(b[:])
	if err != nil {
		return nil, errors.New("scalar not canonical")
	}
	return s, nil
}

func scBytes(s *ed.Scalar) (out [32]byte) {
	copy(out[:], s.Bytes())
	return out
}

// scFromUint64 returns the scalar v (Monero d2h).
func scFromUint64(v uint64) *ed.Scalar {
	var b [32]byte
	for i := 0; i < 8; i++ {
		b[i] = byte(v >> (8 * uint(i)))
	}
	return scReduce32(&b)
}

// ---------------------------------------------------------------------------
// Points.

var errBadPoint = errors.New("xcrypto model: invalid curve point (ge_frombytes_vartime failed)")

// keyH is the second Pedersen generator H = 8*toPoint(cn_fast_hash(G)) from
// rctTypes.h.
var keyH = types.Key{0x8b, 0x65, 0x59, 0x70, 0x15, 0x37, 0x99, 0xaf, 0x2a, 0xea, 0xdc, 0x9f, 0xf1, 0xad, 0xd0, 0xea,
	0x6c, 0x72, 0x51, 0xd5, 0x41, 0x54, 0xcf, 0xa9, 0x2c, 0x17, 0x3a, 0x0d, 0xd3, 0x9c, 0x1f, 0x94}

var (
	pointG = ed.NewGeneratorPoint()
	pointH = mustPoint(keyH[:])
)

func mustPoint(b []byte) *ed.Point {
	p, err := decodePoint(b)
	if err != nil {
		panic(err)
	}
	return p
}

// decodePoint is ge_frombytes_vartime.
func decodePoint(b []byte) (*ed.Point, error) {
	p, err := new(ed.Point).SetBytesMonero(b)
	if err != nil {
		return nil, errBadPoint
	}
	return p, nil
}

func encodePoint(p *ed.Point) [32]byte { return p.Bytes32() }

// hashToPoint is Monero's hash_to_ec / rct hashToPoint (hash_to_p3):
// 8 * ge_fromfe_frombytes_vartime(cn_fast_hash(key)).
func hashToPoint(key []byte) *ed.Point {
	h := cnFastHash(key)
	p := new(ed.Point).SetMoneroHashToPointRaw(&h)
	return p.MultByCofactor(p)
}

// baseMult returns (k mod l)*G for an arbitrary 256-bit k. G has prime order so
// the reduction does not change the result.
func baseMult(k *[32]byte) *ed.Point {
	return new(ed.Point).ScalarBaseMult(scReduce32(k))
}

// geScalarmult is Monero's ge_scalarmult(k, P): for k[31] <= 127 (every
// well-formed scalar) the integer product k*P where k is NOT reduced mod l,
// which differs from reduction when P has a torsion component; for larger k the
// out-of-specification behaviour of the C code is reproduced (see
// ed25519x.VarTimeScalarMultMonero).
func geScalarmult(k *[32]byte, p *ed.Point) *ed.Point {
	return new(ed.Point).VarTimeScalarMultMonero(k, p)
}

// intMult returns k*P for the full 256-bit integer k (not reduced), as the
// sliding-window double scalar multiplications of crypto-ops do.
func intMult(k *[32]byte, p *ed.Point) *ed.Point {
	return new(ed.Point).VarTimeScalarMultInt(k, p)
}

// commit returns mask*G + amount*H.
func commit(mask, amount *ed.Scalar) *ed.Point {
	r := new(ed.Point).VarTimeDoubleScalarBaseMult(amount, pointH, mask)
	return r
}
