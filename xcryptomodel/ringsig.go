package xcrypto

// Classic CryptoNote ring signatures (crypto.cpp generate_ring_signature /
// check_ring_signature).

import (
	"fmt"

	"github.com/lianxiangcloud/linkchain/libs/cryptonote/types"
	ed "verif/sim/ed25519x"
)

// generateRingSignature is crypto_ops::generate_ring_signature for an arbitrary
// ring size; it returns one (c, r) pair per ring member.
func generateRingSignature(prefix *types.Hash, keyImage *types.KeyImage, pks []types.PublicKey, sec *types.SecretKey, secIndex int) ([]types.Signature, error) {
	n := len(pks)
	if n == 0 {
		return nil, fmt.Errorf("pubkeys zero")
	}
	if secIndex < 0 || secIndex >= n {
		return nil, fmt.Errorf("sec_index out of range")
	}
	image, err := decodePoint(keyImage[:])
	if err != nil {
		return nil, fmt.Errorf("invalid key image")
	}
	sb := [32]byte(*sec)
	x := scReduce32(&sb) // release builds of crypto.cpp do not sc_check(sec)

	buf := make([]byte, 0, 32+64*n)
	buf = append(buf, prefix[:]...)
	sigs := make([]types.Signature, n)
	cs := make([]*ed.Scalar, n)
	rs := make([]*ed.Scalar, n)
	sum := ed.NewScalar()
	var k *ed.Scalar
	for i := 0; i < n; i++ {
		hp := hashToPoint(pks[i][:])
		var a, b *ed.Point
		if i == secIndex {
			k = randomScalar()
			a = new(ed.Point).ScalarBaseMult(k)
			b = new(ed.Point).VarTimeScalarMult(k, hp)
		} else {
			cs[i] = randomScalar()
			rs[i] = randomScalar()
			p, err := decodePoint(pks[i][:])
			if err != nil {
				return nil, fmt.Errorf("invalid pubkey")
			}
			a = new(ed.Point).VarTimeDoubleScalarBaseMult(cs[i], p, rs[i])
			b = new(ed.Point).VarTimeDoubleScalarMult(rs[i], hp, cs[i], image)
			sum.Add(sum, cs[i])
		}
		ab, bb := encodePoint(a), encodePoint(b)
		buf = append(buf, ab[:]...)
		buf = append(buf, bb[:]...)
	}
	h := hashToScalar(buf)
	cs[secIndex] = new(ed.Scalar).Subtract(h, sum)
	// r = k - c*x
	rs[secIndex] = new(ed.Scalar).Subtract(k, new(ed.Scalar).Multiply(cs[secIndex], x))
	for i := 0; i < n; i++ {
		sigs[i].C = types.EcScalar(scBytes(cs[i]))
		sigs[i].R = types.EcScalar(scBytes(rs[i]))
	}
	return sigs, nil
}

// checkRingSignature is crypto_ops::check_ring_signature. Like the original it
// does NOT check that the key image lies in the prime-order subgroup (callers
// do that with ScalarmultKey(image, l) == identity).
func checkRingSignature(prefix *types.Hash, keyImage *types.KeyImage, pks []types.PublicKey, sigs []types.Signature) bool {
	n := len(pks)
	if n == 0 || len(sigs) != n {
		return false
	}
	image, err := decodePoint(keyImage[:])
	if err != nil {
		return false
	}
	buf := make([]byte, 0, 32+64*n)
	buf = append(buf, prefix[:]...)
	sum := ed.NewScalar()
	for i := 0; i < n; i++ {
		cb, rb := [32]byte(sigs[i].C), [32]byte(sigs[i].R)
		c, err := scCanonical(&cb)
		if err != nil {
			return false
		}
		r, err := scCanonical(&rb)
		if err != nil {
			return false
		}
		p, err := decodePoint(pks[i][:])
		if err != nil {
			return false
		}
		a := new(ed.Point).VarTimeDoubleScalarBaseMult(c, p, r)
		hp := hashToPoint(pks[i][:])
		b := new(ed.Point).VarTimeDoubleScalarMult(r, hp, c, image)
		ab, bb := encodePoint(a), encodePoint(b)
		buf = append(buf, ab[:]...)
		buf = append(buf, bb[:]...)
		sum.Add(sum, c)
	}
	h := hashToScalar(buf)
	return h.Equal(sum) == 1
}

// GenerateRingSignature --
//
// The cgo shim copies exactly ONE (c, r) pair out of libxcrypto (signature_t is
// a single pair), so the wrapper is only meaningful for a ring of one member,
// which is how linkchain uses it (SHORT_RING_MEMBER_NUM == 1). With a larger
// ring the C shim overruns a stack variable; the model refuses instead.
func GenerateRingSignature(prefix types.Hash, keyImage types.KeyImage, pks []types.PublicKey, sec types.SecretKey, secIndex uint) (*types.Signature, error) {
	if len(pks) == 0 {
		return nil, fmt.Errorf("pubkeys zero")
	}
	if len(pks) != 1 {
		return nil, fmt.Errorf("x_generate_ring_signature: ring size %d not supported by the single-signature wrapper", len(pks))
	}
	sigs, err := generateRingSignature(&prefix, &keyImage, pks, &sec, int(secIndex))
	if err != nil {
		return nil, fmt.Errorf("x_generate_ring_signature")
	}
	return &sigs[0], nil
}

// CheckRingSignature true means RingSignature ok. See GenerateRingSignature for
// the ring-size restriction (a larger ring can never verify through the
// single-signature wrapper).
func CheckRingSignature(prefix types.Hash, keyImage types.KeyImage, pks []types.PublicKey, sig *types.Signature) bool {
	if len(pks) == 0 {
		panic("pubkeys zero")
	}
	if len(pks) != 1 || sig == nil {
		return false
	}
	return checkRingSignature(&prefix, &keyImage, pks, []types.Signature{*sig})
}
