package xcrypto

// Test helpers of tlv_call.go. In the cgo build they round-trip TLV encoded
// data through the C library; the model round-trips through the Go TLV codec.

import (
	"fmt"

	"github.com/lianxiangcloud/linkchain/libs/cryptonote/types"
)

// TlvKeyVTest encodes a KeyV, decodes it again and compares.
func TlvKeyVTest(keysie int) error {
	cKeyV := make(types.KeyV, keysie)
	for i := 0; i < keysie; i++ {
		cKeyV[i] = types.Key{121, 201, 148, 20, 165, 225, 8, 37, 186, 117, 239, 0, 3, 148, 76, 241, 86, 55, 38, 123, 182, 35, 115, 126, 76, 56, 186, 191, 23, 80, 177, 49}
	}
	data := make([]byte, cKeyV.TlvSize())
	if _, err := cKeyV.TlvEncode(data); err != nil {
		return err
	}
	to := types.KeyV{}
	if err := to.TlvDecode(data); err != nil {
		return fmt.Errorf("cgo test_tlv_keyV fail")
	}
	if !to.IsEqual(&cKeyV) {
		return fmt.Errorf("not equal")
	}
	return nil
}

// TlvRctSign runs verRctSimple and only reports internal failures (like the cgo
// version, the verification result itself is ignored).
func TlvRctSign(rctsign *types.RctSig) error {
	if rctsign == nil {
		return fmt.Errorf("cgo TlvRctSign fail")
	}
	data := make([]byte, rctsign.TlvSize())
	if _, err := rctsign.TlvEncode(data); err != nil {
		return err
	}
	if err, _ := TlvVerRctSimple(rctsign); err != nil {
		return fmt.Errorf("cgo TlvRctSign fail")
	}
	return nil
}

// TlvRctsigForTest TLV-encodes and decodes an RctSig.
func TlvRctsigForTest(rctsign *types.RctSig) (*types.RctSig, error) {
	if rctsign == nil {
		return nil, fmt.Errorf("cgo test_tlv_rctsig fail")
	}
	data := make([]byte, rctsign.TlvSize())
	if _, err := rctsign.TlvEncode(data); err != nil {
		return nil, err
	}
	to := &types.RctSig{}
	if err := to.TlvDecode(data); err != nil {
		return nil, fmt.Errorf("cgo test_tlv_rctsig fail")
	}
	return to, nil
}
