package xcrypto

// Genuine Monero Bulletproof VERIFICATION (ringct/bulletproofs.cc,
// bulletproof_VERIFY of v0.14/v0.15, N = 64 bits, up to 16 aggregated outputs).
// There is no genuine prover in this model (see bulletproof.go); the verifier
// exists so that range proofs produced by the real C++ library (test vectors,
// recorded transactions) still verify.
//
// linkchain's 128-bit variant (tlv_proveRangeBulletproof128 /
// tlv_verBulletproof128) is the same construction with N = 128 (7 + log2(M)
// rounds, generators get_exponent(H, 0..)); this is pinned by a real 128-bit
// proof embedded in /repo/wallet/wallet/transaction_test.go (TestSubaddrSpend).
//
// The C++ code folds both verification equations into one multi-exponentiation
// using random weights. The model checks the two equations separately instead,
// which is equivalent, deterministic and needs no randomness.

import (
	"sync"

	"github.com/lianxiangcloud/linkchain/libs/cryptonote/types"
	ed "verif/sim/ed25519x"
)

var (
	bpGenMu   sync.Mutex
	bpGi      []*ed.Point
	bpHi      []*ed.Point
	bpTwoOnce sync.Once
	bpTwoN    []*ed.Scalar // 2^i, i < 128
)

// bpGetExponent is get_exponent(base, idx):
// hashToPoint(cn_fast_hash(base || "bulletproof" || varint(idx))).
func bpGetExponent(base *types.Key, idx uint64) *ed.Point {
	buf := make([]byte, 0, 32+11+10)
	buf = append(buf, base[:]...)
	buf = append(buf, "bulletproof"...)
	buf = putVarint(buf, idx)
	h := cnFastHash(buf)
	return hashToPoint(h[:])
}

// bpGenerators returns the first n generators Gi, Hi (computed on demand and
// cached; the returned slices are never modified afterwards).
func bpGenerators(n int) (gi, hi []*ed.Point) {
	bpGenMu.Lock()
	defer bpGenMu.Unlock()
	if len(bpGi) < n {
		// copy-on-grow so that slices handed out earlier stay valid
		ngi := make([]*ed.Point, n)
		nhi := make([]*ed.Point, n)
		copy(ngi, bpGi)
		copy(nhi, bpHi)
		for i := len(bpGi); i < n; i++ {
			nhi[i] = bpGetExponent(&keyH, uint64(2*i))
			ngi[i] = bpGetExponent(&keyH, uint64(2*i+1))
		}
		bpGi, bpHi = ngi, nhi
	}
	return bpGi[:n], bpHi[:n]
}

// bpPowersOfTwo returns 2^i for i < 128.
func bpPowersOfTwo() []*ed.Scalar {
	bpTwoOnce.Do(func() {
		bpTwoN = make([]*ed.Scalar, 128)
		two := new(ed.Scalar).Add(scOne, scOne)
		bpTwoN[0] = new(ed.Scalar).Set(scOne)
		for i := 1; i < len(bpTwoN); i++ {
			bpTwoN[i] = new(ed.Scalar).Multiply(bpTwoN[i-1], two)
		}
	})
	return bpTwoN
}

func bpMash(cache *types.Key, keys ...*types.Key) *ed.Scalar {
	buf := make([]byte, 0, 32*(1+len(keys)))
	buf = append(buf, cache[:]...)
	for _, k := range keys {
		buf = append(buf, k[:]...)
	}
	s := hashToScalar(buf)
	*cache = types.Key(scBytes(s))
	return s
}

func isZeroScalar(s *ed.Scalar) bool { return s.Equal(scZero) == 1 }

// verBulletproofGenuine verifies one genuine Bulletproof over bits-wide amounts
// (64: Monero, 128: linkchain variant).
func verBulletproofGenuine(proof *types.Bulletproof, bits int) bool {
	bpN, bpLogN := 64, 6
	if bits == 128 {
		bpN, bpLogN = 128, 7
	}
	// scalar range
	var taux, mu, a, b, t *ed.Scalar
	for _, f := range []struct {
		k *types.Key
		s **ed.Scalar
	}{{&proof.Taux, &taux}, {&proof.Mu, &mu}, {&proof.Aa, &a}, {&proof.B, &b}, {&proof.T, &t}} {
		kb := [32]byte(*f.k)
		s, err := scCanonical(&kb)
		if err != nil {
			return false
		}
		*f.s = s
	}
	if len(proof.V) < 1 || len(proof.V) > bpMaxOutputs || len(proof.L) != len(proof.R) || len(proof.L) == 0 {
		return false
	}
	logM := 0
	for (1<<uint(logM)) <= bpMaxOutputs && (1<<uint(logM)) < len(proof.V) {
		logM++
	}
	if len(proof.L) != bpLogN+logM {
		return false
	}
	M := 1 << uint(logM)
	MN := M * bpN
	rounds := logM + bpLogN
	bpGi, bpHi := bpGenerators(MN)
	bpTwoN := bpPowersOfTwo()
	// <1^N, 2^N> = 2^N - 1
	bpIP12 := ed.NewScalar()
	for i := 0; i < bpN; i++ {
		bpIP12.Add(bpIP12, bpTwoN[i])
	}

	// Reconstruct the challenges.
	vbuf := make([]byte, 0, 32*len(proof.V))
	for i := range proof.V {
		vbuf = append(vbuf, proof.V[i][:]...)
	}
	cache := types.Key(scBytes(hashToScalar(vbuf)))
	y := bpMash(&cache, &proof.A, &proof.S)
	if isZeroScalar(y) {
		return false
	}
	yb := scBytes(y)
	z := hashToScalar(yb[:])
	cache = types.Key(scBytes(z))
	if isZeroScalar(z) {
		return false
	}
	zk := types.Key(scBytes(z))
	x := bpMash(&cache, &zk, &proof.T1, &proof.T2)
	if isZeroScalar(x) {
		return false
	}
	xk := types.Key(scBytes(x))
	xip := bpMash(&cache, &xk, &proof.Taux, &proof.Mu, &proof.T)
	if isZeroScalar(xip) {
		return false
	}
	w := make([]*ed.Scalar, rounds)
	winv := make([]*ed.Scalar, rounds)
	for i := 0; i < rounds; i++ {
		w[i] = bpMash(&cache, &proof.L[i], &proof.R[i])
		if isZeroScalar(w[i]) {
			return false
		}
		winv[i] = new(ed.Scalar).Invert(w[i])
	}
	yinv := new(ed.Scalar).Invert(y)

	// Points premultiplied by 8.
	mul8 := func(k *types.Key) *ed.Point {
		p, err := decodePoint(k[:])
		if err != nil {
			return nil
		}
		return p.MultByCofactor(p)
	}
	v8 := make([]*ed.Point, len(proof.V))
	for i := range proof.V {
		if v8[i] = mul8(&proof.V[i]); v8[i] == nil {
			return false
		}
	}
	l8 := make([]*ed.Point, rounds)
	r8 := make([]*ed.Point, rounds)
	for i := 0; i < rounds; i++ {
		if l8[i] = mul8(&proof.L[i]); l8[i] == nil {
			return false
		}
		if r8[i] = mul8(&proof.R[i]); r8[i] == nil {
			return false
		}
	}
	t18, t28, s8, a8 := mul8(&proof.T1), mul8(&proof.T2), mul8(&proof.S), mul8(&proof.A)
	if t18 == nil || t28 == nil || s8 == nil || a8 == nil {
		return false
	}

	// powers of z: zpow[i] = z^i, i < M+3
	zpow := make([]*ed.Scalar, M+3)
	zpow[0] = new(ed.Scalar).Set(scOne)
	for i := 1; i < len(zpow); i++ {
		zpow[i] = new(ed.Scalar).Multiply(zpow[i-1], z)
	}
	// ip1y = sum_{i<MN} y^i
	ip1y := ed.NewScalar()
	yp := new(ed.Scalar).Set(scOne)
	for i := 0; i < MN; i++ {
		ip1y.Add(ip1y, yp)
		yp = new(ed.Scalar).Multiply(yp, y)
	}
	// delta = (z - z^2)*ip1y - sum_{j=1..M} z^(j+2) * ip12
	delta := new(ed.Scalar).Multiply(new(ed.Scalar).Subtract(z, zpow[2]), ip1y)
	for j := 1; j <= M; j++ {
		delta.Subtract(delta, new(ed.Scalar).Multiply(zpow[j+2], bpIP12))
	}

	// Equation 1 (paper line 61):
	//   sum z^(j+2)*V_j + x*T1 + x^2*T2 == taux*G + (t - delta)*H
	{
		scalars := make([]*ed.Scalar, 0, len(v8)+3)
		points := make([]*ed.Point, 0, len(v8)+3)
		for j := range v8 {
			scalars = append(scalars, zpow[j+2])
			points = append(points, v8[j])
		}
		scalars = append(scalars, x, new(ed.Scalar).Multiply(x, x), new(ed.Scalar).Negate(new(ed.Scalar).Subtract(t, delta)))
		points = append(points, t18, t28, pointH)
		lhs := new(ed.Point).VarTimeMultiScalarMult(scalars, points)
		if lhs.Equal(new(ed.Point).ScalarBaseMult(taux)) != 1 {
			return false
		}
	}

	// Equation 2 (paper lines 62-66 with the inner product argument unrolled):
	//   A + x*S + sum w_i^2 L_i + w_i^-2 R_i + (t - a*b)*x_ip*H - mu*G
	//     - sum g_i*Gi[i] - sum h_i*Hi[i] == 0
	wCache := make([]*ed.Scalar, 1<<uint(rounds))
	wCache[0] = winv[0]
	wCache[1] = w[0]
	for j := 1; j < rounds; j++ {
		slots := 1 << uint(j+1)
		for s := slots - 1; s > 0; s -= 2 {
			parent := wCache[s/2]
			wCache[s] = new(ed.Scalar).Multiply(parent, w[j])
			wCache[s-1] = new(ed.Scalar).Multiply(parent, winv[j])
		}
	}
	scalars := make([]*ed.Scalar, 0, 2*MN+2*rounds+4)
	points := make([]*ed.Point, 0, 2*MN+2*rounds+4)
	yinvpow := new(ed.Scalar).Set(scOne)
	ypow := new(ed.Scalar).Set(scOne)
	for i := 0; i < MN; i++ {
		g := new(ed.Scalar).Multiply(a, wCache[i])
		g.Add(g, z)
		h := new(ed.Scalar).Multiply(b, yinvpow)
		h.Multiply(h, wCache[(^i)&(MN-1)])
		// h -= (z*y^i + z^(2+i/N)*2^(i%N)) * y^-i
		tmp := new(ed.Scalar).Multiply(zpow[2+i/bpN], bpTwoN[i%bpN])
		tmp.Add(tmp, new(ed.Scalar).Multiply(z, ypow))
		h.Subtract(h, tmp.Multiply(tmp, yinvpow))
		scalars = append(scalars, g.Negate(g), h.Negate(h))
		points = append(points, bpGi[i], bpHi[i])
		yinvpow = new(ed.Scalar).Multiply(yinvpow, yinv)
		ypow = new(ed.Scalar).Multiply(ypow, y)
	}
	scalars = append(scalars, scOne, x)
	points = append(points, a8, s8)
	for i := 0; i < rounds; i++ {
		scalars = append(scalars, new(ed.Scalar).Multiply(w[i], w[i]), new(ed.Scalar).Multiply(winv[i], winv[i]))
		points = append(points, l8[i], r8[i])
	}
	tab := new(ed.Scalar).Subtract(t, new(ed.Scalar).Multiply(a, b))
	scalars = append(scalars, tab.Multiply(tab, xip), new(ed.Scalar).Negate(mu))
	points = append(points, pointH, pointG)
	return new(ed.Point).VarTimeMultiScalarMult(scalars, points).IsIdentity()
}
