// Package xcrypto: placeholder pure-Go replacement for the cgo wrappers of
// libxcrypto (binary absent in this sandbox). Substituted with go build -overlay.
// This file is the link-only stub; model.go (when present) replaces it.
package xcrypto

import (
	"fmt"

	"github.com/lianxiangcloud/linkchain/libs/cryptonote/types"
)

func ni(name string) { panic("xcrypto model: " + name + " not implemented") }

func WordsToBytes(words string) (sec types.SecretKey, err error) {
	return sec, fmt.Errorf("not implemented")
}
func BytesToWords(sec types.SecretKey, lang string) (string, error) {
	return "", fmt.Errorf("not implemented")
}
func GenerateKeys(recoverKey types.SecretKey) (sk types.SecretKey, pk types.PublicKey) {
	ni("GenerateKeys")
	return
}
func SecretAdd(a, b types.SecretKey) (r types.SecretKey) { ni("SecretAdd"); return }
func GetSubaddressSecretKey(main types.SecretKey, index uint32) (sub types.SecretKey) {
	ni("GetSubaddressSecretKey")
	return
}
func GetSubaddress(keys *types.AccountKey, index uint32) (addr types.AccountAddress) {
	ni("GetSubaddress")
	return
}
func GenerateKeyDerivation(pub types.PublicKey, sec types.SecretKey) (der types.KeyDerivation, err error) {
	ni("GenerateKeyDerivation")
	return
}
func DeriveSubaddressPublicKey(pub types.PublicKey, derivation types.KeyDerivation, outIndex int) (derPub types.PublicKey, err error) {
	ni("DeriveSubaddressPublicKey")
	return
}
func DeriveSecretKey(derivation types.KeyDerivation, outIndex int, sec types.SecretKey) (derSec types.SecretKey, err error) {
	ni("DeriveSecretKey")
	return
}
func DerivePublicKey(derivation types.KeyDerivation, outIndex int, pub types.PublicKey) (derPub types.PublicKey, err error) {
	ni("DerivePublicKey")
	return
}
func SecretKeyToPublicKey(sec types.SecretKey) (pub types.PublicKey, err error) {
	ni("SecretKeyToPublicKey")
	return
}
func GenerateKeyImage(pub types.PublicKey, sec types.SecretKey) (ki types.KeyImage, err error) {
	ni("GenerateKeyImage")
	return
}
func DerivationToScalar(derivation types.KeyDerivation, outIndex int) (res types.EcScalar, err error) {
	ni("DerivationToScalar")
	return
}
func GenerateRingSignature(prefix types.Hash, keyImage types.KeyImage, pks []types.PublicKey, sec types.SecretKey, secIndex uint) (*types.Signature, error) {
	ni("GenerateRingSignature")
	return nil, nil
}
func CheckRingSignature(prefix types.Hash, keyImage types.KeyImage, pks []types.PublicKey, sig *types.Signature) bool {
	ni("CheckRingSignature")
	return false
}
func ScalarmultKey(p, a types.Key) (ret types.Key, err error)      { ni("ScalarmultKey"); return }
func ScalarmultBase(a types.Key) (ret types.Key)                   { ni("ScalarmultBase"); return }
func SkpkGen() (sk types.Key, pk types.Key)                        { ni("SkpkGen"); return }
func ScalarmultH(a types.Key) (ret types.Key)                      { ni("ScalarmultH"); return }
func ZeroCommit(amount types.Lk_amount) (ret types.Key, err error) { ni("ZeroCommit"); return }
func CheckKey(key types.PublicKey) bool                            { ni("CheckKey"); return false }
func EcdhDecode(masked *types.EcdhTuple, sharedSec types.Key, shortAmount bool) bool {
	ni("EcdhDecode")
	return false
}
func EcdhEncode(unmasked *types.EcdhTuple, sharedSec types.Key, shortAmount bool) bool {
	ni("EcdhEncode")
	return false
}
func Scalarmult8(p types.Key) (ret types.Key, err error)                  { ni("Scalarmult8"); return }
func ScAdd(a, b types.EcScalar) (ret types.Key)                           { ni("ScAdd"); return }
func ScSub(a, b types.EcScalar) (ret types.Key)                           { ni("ScSub"); return }
func SkGen() (ret types.Key)                                              { ni("SkGen"); return }
func GenC(a types.Key, amount types.Lk_amount) (ret types.Key, err error) { ni("GenC"); return }
func AddKeys(a, b types.Key) (ret types.Key, err error)                   { ni("AddKeys"); return }
func AddKeys2(a, b, B types.Key) (ret types.Key, err error)               { ni("AddKeys2"); return }
func TlvVerRctNotSemanticsSimple(rctsign *types.RctSig) bool {
	ni("TlvVerRctNotSemanticsSimple")
	return false
}
func TlvVerRctSimple(rctsign *types.RctSig) (error, bool) { ni("TlvVerRctSimple"); return nil, false }
func TlvProveRangeBulletproof(amounts types.KeyV, sk types.KeyV) (b *types.Bulletproof, c types.KeyV, masks types.KeyV, err error) {
	ni("TlvProveRangeBulletproof")
	return
}
func TlvProveRangeBulletproof128(amounts types.KeyV, sk types.KeyV) (b *types.Bulletproof, c types.KeyV, masks types.KeyV, err error) {
	ni("TlvProveRangeBulletproof128")
	return
}
func TlvProveRctMGSimple(message types.Key, pubs types.CtkeyV, inSk types.Ctkey, a, Count types.Key, mscout *types.Key, kLRki *types.MultisigKLRki, index uint32) (sig *types.MgSig, err error) {
	ni("TlvProveRctMGSimple")
	return
}
func TlvGetPreMlsagHash(rctsign *types.RctSig) (key types.Key, err error) {
	ni("TlvGetPreMlsagHash")
	return
}
func TlvAddKeyV(a types.KeyV) (sum types.Key, err error) { ni("TlvAddKeyV"); return }
func TlvVerBulletproof(bp *types.Bulletproof) (bool, error) {
	ni("TlvVerBulletproof")
	return false, nil
}
func TlvVerBulletproof128(bp *types.Bulletproof) (bool, error) {
	ni("TlvVerBulletproof128")
	return false, nil
}
func TlvGetSubaddress(keys *types.AccountKey, index uint32) (addr types.AccountAddress, err error) {
	ni("TlvGetSubaddress")
	return
}
func TlvKeyVTest(keysie int) error           { return nil }
func TlvRctSign(rctsign *types.RctSig) error { ni("TlvRctSign"); return nil }
func TlvRctsigForTest(rctsign *types.RctSig) (*types.RctSig, error) {
	ni("TlvRctsigForTest")
	return nil, nil
}
