package xcrypto

// MLSAG ring signatures and the "simple" RingCT verification entry points
// (ringct/rctSigs.cpp of Monero v0.14/v0.15).

import (
	"fmt"

	"github.com/lianxiangcloud/linkchain/libs/cryptonote/types"
	ed "verif/sim/ed25519x"
)

// mlsagGen is MLSAG_Gen without multisig support. pk is indexed [column][row],
// xx are the secrets of column index, the first dsRows rows carry key images.
func mlsagGen(message *types.Key, pk []types.KeyV, xx []*ed.Scalar, index int, dsRows int) (*types.MgSig, error) {
	cols := len(pk)
	if cols < 1 {
		return nil, fmt.Errorf("Error! What is c if cols = 1!")
	}
	if index < 0 || index >= cols {
		return nil, fmt.Errorf("Index out of range")
	}
	rows := len(pk[0])
	if rows < 1 {
		return nil, fmt.Errorf("Empty pk")
	}
	for i := range pk {
		if len(pk[i]) != rows {
			return nil, fmt.Errorf("pk is not rectangular")
		}
	}
	if len(xx) != rows {
		return nil, fmt.Errorf("Bad xx size")
	}
	if dsRows > rows {
		return nil, fmt.Errorf("Bad dsRows size")
	}

	// decode all ring members once
	pts := make([][]*ed.Point, cols)
	for i := 0; i < cols; i++ {
		pts[i] = make([]*ed.Point, rows)
		for j := 0; j < rows; j++ {
			p, err := decodePoint(pk[i][j][:])
			if err != nil {
				return nil, err
			}
			pts[i][j] = p
		}
	}

	rv := &types.MgSig{II: make(types.KeyV, dsRows), Ss: make(types.KeyM, cols)}
	for i := range rv.Ss {
		rv.Ss[i] = make(types.KeyV, rows)
	}
	images := make([]*ed.Point, dsRows)
	alpha := make([]*ed.Scalar, rows)
	toHash := make([]types.Key, 1+3*dsRows+2*(rows-dsRows))
	toHash[0] = *message
	for i := 0; i < dsRows; i++ {
		hi := hashToPoint(pk[index][i][:])
		alpha[i] = randomScalar()
		aG := new(ed.Point).ScalarBaseMult(alpha[i])
		aHP := new(ed.Point).VarTimeScalarMult(alpha[i], hi)
		images[i] = new(ed.Point).VarTimeScalarMult(xx[i], hi)
		rv.II[i] = types.Key(encodePoint(images[i]))
		toHash[3*i+1] = pk[index][i]
		toHash[3*i+2] = types.Key(encodePoint(aG))
		toHash[3*i+3] = types.Key(encodePoint(aHP))
	}
	ndsRows := 3 * dsRows
	for i, ii := dsRows, 0; i < rows; i, ii = i+1, ii+1 {
		alpha[i] = randomScalar()
		aG := new(ed.Point).ScalarBaseMult(alpha[i])
		toHash[ndsRows+2*ii+1] = pk[index][i]
		toHash[ndsRows+2*ii+2] = types.Key(encodePoint(aG))
	}
	cOld := hashKeysToScalar(toHash)

	i := (index + 1) % cols
	if i == 0 {
		rv.Cc = types.Key(scBytes(cOld))
	}
	for i != index {
		ss := make([]*ed.Scalar, rows)
		for j := 0; j < rows; j++ {
			ss[j] = randomScalar()
			rv.Ss[i][j] = types.Key(scBytes(ss[j]))
		}
		for j := 0; j < dsRows; j++ {
			l := new(ed.Point).VarTimeDoubleScalarBaseMult(cOld, pts[i][j], ss[j])
			hi := hashToPoint(pk[i][j][:])
			r := new(ed.Point).VarTimeDoubleScalarMult(ss[j], hi, cOld, images[j])
			toHash[3*j+1] = pk[i][j]
			toHash[3*j+2] = types.Key(encodePoint(l))
			toHash[3*j+3] = types.Key(encodePoint(r))
		}
		for j, ii := dsRows, 0; j < rows; j, ii = j+1, ii+1 {
			l := new(ed.Point).VarTimeDoubleScalarBaseMult(cOld, pts[i][j], ss[j])
			toHash[ndsRows+2*ii+1] = pk[i][j]
			toHash[ndsRows+2*ii+2] = types.Key(encodePoint(l))
		}
		cOld = hashKeysToScalar(toHash)
		i = (i + 1) % cols
		if i == 0 {
			rv.Cc = types.Key(scBytes(cOld))
		}
	}
	// ss[index][j] = alpha[j] - c*xx[j]   (sc_mulsub)
	for j := 0; j < rows; j++ {
		s := new(ed.Scalar).Subtract(alpha[j], new(ed.Scalar).Multiply(cOld, xx[j]))
		rv.Ss[index][j] = types.Key(scBytes(s))
	}
	return rv, nil
}

// mlsagVer is MLSAG_Ver.
func mlsagVer(message *types.Key, pk []types.KeyV, rv *types.MgSig, dsRows int) bool {
	cols := len(pk)
	if cols < 2 {
		// "Error! What is c if cols = 1!" -- the C++ verifier rejects a ring
		// of a single member; linkchain uses CheckRingSignature for that case.
		return false
	}
	rows := len(pk[0])
	if rows < 1 {
		return false
	}
	for i := 1; i < cols; i++ {
		if len(pk[i]) != rows {
			return false
		}
	}
	if len(rv.II) != dsRows || len(rv.Ss) != cols || dsRows > rows {
		return false
	}
	ss := make([][]*ed.Scalar, cols)
	for i := 0; i < cols; i++ {
		if len(rv.Ss[i]) != rows {
			return false
		}
		ss[i] = make([]*ed.Scalar, rows)
		for j := 0; j < rows; j++ {
			b := [32]byte(rv.Ss[i][j])
			s, err := scCanonical(&b)
			if err != nil {
				return false // Bad ss slot
			}
			ss[i][j] = s
		}
	}
	ccb := [32]byte(rv.Cc)
	cc, err := scCanonical(&ccb)
	if err != nil {
		return false // Bad cc
	}
	images := make([]*ed.Point, dsRows)
	for i := 0; i < dsRows; i++ {
		p, err := decodePoint(rv.II[i][:])
		if err != nil {
			return false
		}
		images[i] = p
	}
	ndsRows := 3 * dsRows
	toHash := make([]types.Key, 1+3*dsRows+2*(rows-dsRows))
	toHash[0] = *message
	cOld := new(ed.Scalar).Set(cc)
	for i := 0; i < cols; i++ {
		for j := 0; j < dsRows; j++ {
			p, err := decodePoint(pk[i][j][:])
			if err != nil {
				return false
			}
			l := new(ed.Point).VarTimeDoubleScalarBaseMult(cOld, p, ss[i][j])
			hi := hashToPoint(pk[i][j][:])
			if hi.IsIdentity() {
				return false // Data hashed to point at infinity
			}
			r := new(ed.Point).VarTimeDoubleScalarMult(ss[i][j], hi, cOld, images[j])
			toHash[3*j+1] = pk[i][j]
			toHash[3*j+2] = types.Key(encodePoint(l))
			toHash[3*j+3] = types.Key(encodePoint(r))
		}
		for j, ii := dsRows, 0; j < rows; j, ii = j+1, ii+1 {
			p, err := decodePoint(pk[i][j][:])
			if err != nil {
				return false
			}
			l := new(ed.Point).VarTimeDoubleScalarBaseMult(cOld, p, ss[i][j])
			toHash[ndsRows+2*ii+1] = pk[i][j]
			toHash[ndsRows+2*ii+2] = types.Key(encodePoint(l))
		}
		cOld = hashKeysToScalar(toHash)
	}
	return cOld.Equal(cc) == 1
}

// TlvProveRctMGSimple is proveRctMGSimple: a two-row MLSAG (one key-image row)
// over the columns (P_i, C_i - Cout) with the secrets (x, mask - a).
// Multisig (kLRki / mscout) is not modelled.
func TlvProveRctMGSimple(message types.Key, pubs types.CtkeyV, inSk types.Ctkey, a, Count types.Key, mscout *types.Key, kLRki *types.MultisigKLRki, index uint32) (sig *types.MgSig, err error) {
	if kLRki != nil || mscout != nil {
		if (kLRki != nil) != (mscout != nil) {
			return nil, fmt.Errorf("Only one of kLRki/mscout is present")
		}
		return nil, fmt.Errorf("xcrypto model: multisig MLSAG (kLRki/mscout) not supported")
	}
	cols := len(pubs)
	if cols < 1 {
		return nil, fmt.Errorf("Empty pubs")
	}
	if int(index) >= cols {
		return nil, fmt.Errorf("Index out of range")
	}
	cout, err := decodePoint(Count[:])
	if err != nil {
		return nil, err
	}
	db, mb, ab := [32]byte(inSk.Dest), [32]byte(inSk.Mask), [32]byte(a)
	sk := []*ed.Scalar{
		scReduce32(&db),
		new(ed.Scalar).Subtract(scReduce32(&mb), scReduce32(&ab)),
	}
	m := make([]types.KeyV, cols)
	for i := 0; i < cols; i++ {
		c, err := decodePoint(pubs[i].Mask[:])
		if err != nil {
			return nil, err
		}
		m[i] = types.KeyV{pubs[i].Dest, types.Key(encodePoint(c.Subtract(c, cout)))}
	}
	return mlsagGen(&message, m, sk, int(index), 1)
}

// verRctMGSimple is verRctMGSimple.
func verRctMGSimple(message *types.Key, mg *types.MgSig, pubs types.CtkeyV, c *types.Key) bool {
	cols := len(pubs)
	if cols < 1 {
		return false
	}
	cp, err := decodePoint(c[:])
	if err != nil {
		return false
	}
	m := make([]types.KeyV, cols)
	for i := 0; i < cols; i++ {
		p, err := decodePoint(pubs[i].Mask[:])
		if err != nil {
			return false
		}
		m[i] = types.KeyV{pubs[i].Dest, types.Key(encodePoint(p.Subtract(p, cp)))}
	}
	return mlsagVer(message, m, mg, 1)
}

func isRctBulletproof(t uint8) bool {
	return t == uint8(types.RCTTypeBulletproof) || t == uint8(types.RCTTypeBulletproof2)
}

func isRctSimple(t uint8) bool {
	return t == uint8(types.RCTTypeSimple) || isRctBulletproof(t)
}

// serializeRctSigBase is rctSigBase::serialize_rctsig_base with the binary
// archive: type, varint fee, (pseudoOuts for RCTTypeSimple), ecdhInfo, outPk
// masks.
func serializeRctSigBase(rv *types.RctSig, inputs, outputs int) ([]byte, error) {
	out := []byte{rv.Type}
	if rv.Type == uint8(types.RCTTypeNull) {
		return out, nil
	}
	if rv.Type != uint8(types.RCTTypeFull) && !isRctSimple(rv.Type) {
		return nil, fmt.Errorf("Failed to serialize rctSigBase")
	}
	out = putVarint(out, uint64(rv.TxnFee))
	if rv.Type == uint8(types.RCTTypeSimple) {
		if len(rv.PseudoOuts) != inputs {
			return nil, fmt.Errorf("Failed to serialize rctSigBase")
		}
		for i := range rv.PseudoOuts {
			out = append(out, rv.PseudoOuts[i][:]...)
		}
	}
	if len(rv.EcdhInfo) != outputs {
		return nil, fmt.Errorf("Failed to serialize rctSigBase")
	}
	for i := range rv.EcdhInfo {
		if rv.Type == uint8(types.RCTTypeBulletproof2) {
			out = append(out, rv.EcdhInfo[i].Amount[:8]...)
		} else {
			out = append(out, rv.EcdhInfo[i].Mask[:]...)
			out = append(out, rv.EcdhInfo[i].Amount[:]...)
		}
	}
	if len(rv.OutPk) != outputs {
		return nil, fmt.Errorf("Failed to serialize rctSigBase")
	}
	for i := range rv.OutPk {
		out = append(out, rv.OutPk[i].Mask[:]...)
	}
	return out, nil
}

// TlvGetPreMlsagHash is get_pre_mlsag_hash:
// H( message || H(serialized rctSigBase) || H(range proof keys) ).
func TlvGetPreMlsagHash(rctsign *types.RctSig) (key types.Key, err error) {
	if rctsign == nil {
		return key, fmt.Errorf("tlv_get_pre_mlsag_hash internal error")
	}
	rv := rctsign
	if len(rv.MixRing) == 0 {
		return key, fmt.Errorf("tlv_get_pre_mlsag_hash internal error: Empty mixRing")
	}
	inputs := len(rv.MixRing)
	if !isRctSimple(rv.Type) {
		inputs = len(rv.MixRing[0])
	}
	outputs := len(rv.EcdhInfo)
	blob, err := serializeRctSigBase(rv, inputs, outputs)
	if err != nil {
		return key, fmt.Errorf("tlv_get_pre_mlsag_hash internal error: %v", err)
	}
	baseHash := cnFastHash(blob)

	var kv []byte
	if isRctBulletproof(rv.Type) {
		for i := range rv.P.Bulletproofs {
			p := &rv.P.Bulletproofs[i]
			// V is not hashed: it is expanded from outPk.mask, which is part
			// of rctSigBase above.
			for _, k := range []*types.Key{&p.A, &p.S, &p.T1, &p.T2, &p.Taux, &p.Mu} {
				kv = append(kv, k[:]...)
			}
			for n := range p.L {
				kv = append(kv, p.L[n][:]...)
			}
			for n := range p.R {
				kv = append(kv, p.R[n][:]...)
			}
			for _, k := range []*types.Key{&p.Aa, &p.B, &p.T} {
				kv = append(kv, k[:]...)
			}
		}
	} else {
		for i := range rv.P.RangeSigs {
			r := &rv.P.RangeSigs[i]
			for n := 0; n < 64; n++ {
				kv = append(kv, r.Asig.S0[n][:]...)
			}
			for n := 0; n < 64; n++ {
				kv = append(kv, r.Asig.S1[n][:]...)
			}
			kv = append(kv, r.Asig.Ee[:]...)
			for n := 0; n < 64; n++ {
				kv = append(kv, r.Ci[n][:]...)
			}
		}
	}
	proofHash := cnFastHash(kv)
	return types.Key(cnFastHash(rv.Message[:], baseHash[:], proofHash[:])), nil
}

// verRctNonSemanticsSimple: every MLSAG verifies against its ring and pseudo
// output commitment with message = pre-MLSAG hash.
func verRctNonSemanticsSimple(rv *types.RctSig) bool {
	if !isRctSimple(rv.Type) {
		return false
	}
	pseudoOuts := rv.PseudoOuts
	if isRctBulletproof(rv.Type) {
		pseudoOuts = rv.P.PseudoOuts
	}
	if len(pseudoOuts) != len(rv.MixRing) {
		return false
	}
	if len(rv.P.MGs) < len(rv.MixRing) {
		return false // C++ would index out of bounds
	}
	message, err := TlvGetPreMlsagHash(rv)
	if err != nil {
		return false
	}
	for i := range rv.MixRing {
		if !verRctMGSimple(&message, &rv.P.MGs[i], rv.MixRing[i], &pseudoOuts[i]) {
			return false
		}
	}
	return true
}

// nBulletproofAmounts is rct::n_bulletproof_amounts for one proof (0 = invalid).
func nBulletproofAmounts(p *types.Bulletproof, logN int) int {
	if len(p.L) < logN || len(p.L) != len(p.R) || len(p.L) > logN+4 {
		return 0
	}
	max := 1 << uint(len(p.L)-logN)
	if len(p.V) > max || len(p.V)*2 <= max || len(p.V) == 0 {
		return 0
	}
	return len(p.V)
}

// verRctSemanticsSimple: structure, commitment balance
// sum(pseudoOuts) == sum(outPk.mask) + fee*H, and the range proofs.
func verRctSemanticsSimple(rv *types.RctSig) (bool, error) {
	if !isRctSimple(rv.Type) {
		return false, nil
	}
	bulletproof := isRctBulletproof(rv.Type)
	var pseudoOuts types.KeyV
	if bulletproof {
		n := 0
		for i := range rv.P.Bulletproofs {
			k := nBulletproofAmounts(&rv.P.Bulletproofs[i], 6)
			if k == 0 {
				return false, nil
			}
			n += k
		}
		if len(rv.OutPk) != n {
			return false, nil
		}
		if len(rv.P.PseudoOuts) != len(rv.P.MGs) {
			return false, nil
		}
		if len(rv.PseudoOuts) != 0 {
			return false, nil
		}
		pseudoOuts = rv.P.PseudoOuts
	} else {
		if len(rv.OutPk) != len(rv.P.RangeSigs) {
			return false, nil
		}
		if len(rv.PseudoOuts) != len(rv.P.MGs) {
			return false, nil
		}
		if len(rv.P.PseudoOuts) != 0 {
			return false, nil
		}
		pseudoOuts = rv.PseudoOuts
	}
	if len(rv.OutPk) != len(rv.EcdhInfo) {
		return false, nil
	}

	sumOut := ed.NewIdentityPoint()
	for i := range rv.OutPk {
		p, err := decodePoint(rv.OutPk[i].Mask[:])
		if err != nil {
			return false, nil
		}
		sumOut.Add(sumOut, p)
	}
	sumOut.Add(sumOut, new(ed.Point).VarTimeScalarMult(scFromUint64(uint64(rv.TxnFee)), pointH))
	sumIn, err := addKeyV(pseudoOuts)
	if err != nil {
		return false, nil
	}
	if sumIn.Equal(sumOut) != 1 {
		return false, nil
	}

	if bulletproof {
		for i := range rv.P.Bulletproofs {
			ok, err := verBulletproof(&rv.P.Bulletproofs[i], 64)
			if err != nil || !ok {
				return false, nil
			}
		}
	} else {
		// Borromean range signatures (RCTTypeSimple) are never produced by
		// linkchain and are not modelled.
		if len(rv.P.RangeSigs) > 0 {
			return false, fmt.Errorf("xcrypto model: Borromean range proofs not supported")
		}
	}
	return true, nil
}

// TlvVerRctNotSemanticsSimple is verRctNonSemanticsSimple (MLSAG part only).
func TlvVerRctNotSemanticsSimple(rctsign *types.RctSig) bool {
	if rctsign == nil {
		return false
	}
	return verRctNonSemanticsSimple(rctsign)
}

// TlvVerRctSimple is verRctSimple = verRctSemanticsSimple &&
// verRctNonSemanticsSimple.
func TlvVerRctSimple(rctsign *types.RctSig) (error, bool) {
	if rctsign == nil {
		return fmt.Errorf("cgo TlvRctSign internal fail"), false
	}
	ok, err := verRctSemanticsSimple(rctsign)
	if err != nil {
		return fmt.Errorf("cgo TlvRctSign internal fail"), false
	}
	if !ok {
		return nil, false
	}
	return nil, verRctNonSemanticsSimple(rctsign)
}
