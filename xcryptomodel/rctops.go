package xcrypto

// Model of rct.go: RingCT primitive operations (ringct/rctOps.cpp).

import (
	"github.com/lianxiangcloud/linkchain/libs/cryptonote/types"
	ed "verif/sim/ed25519x"
)

// ScalarmultKey returns a*P. P must decode (ge_frombytes_vartime); a is used as
// a plain 256-bit integer, it is not reduced (ge_scalarmult), so
// ScalarmultKey(P, l) is the identity exactly when P is in the prime-order
// subgroup.
func ScalarmultKey(p, a types.Key) (ret types.Key, err error) {
	pt, err := decodePoint(p[:])
	if err != nil {
		return ret, err
	}
	k := [32]byte(a)
	return types.Key(encodePoint(geScalarmult(&k, pt))), nil
}

// ScalarmultBase returns a*G.
func ScalarmultBase(a types.Key) (ret types.Key) {
	k := [32]byte(a)
	return types.Key(encodePoint(baseMult(&k)))
}

// SkpkGen generates a random secret and the corresponding public key.
func SkpkGen() (sk types.Key, pk types.Key) {
	s := randomScalar()
	return types.Key(scBytes(s)), types.Key(encodePoint(new(ed.Point).ScalarBaseMult(s)))
}

// ScalarmultH returns a*H (ge_scalarmult, like ScalarmultKey).
func ScalarmultH(a types.Key) (ret types.Key) {
	k := [32]byte(a)
	return types.Key(encodePoint(geScalarmult(&k, pointH)))
}

// ZeroCommit returns G + amount*H (commitment with mask 1).
func ZeroCommit(amount types.Lk_amount) (ret types.Key, err error) {
	return types.Key(encodePoint(commit(scOne, scFromUint64(uint64(amount))))), nil
}

// CheckKey is Monero check_key: the encoding decodes with ge_frombytes_vartime.
func CheckKey(key types.PublicKey) bool {
	_, err := decodePoint(key[:])
	return err == nil
}

func ecdhHash(sharedSec *types.Key) [32]byte {
	return cnFastHash([]byte("amount"), sharedSec[:])
}

// genCommitmentMask is rct::genCommitmentMask: Hs("commitment_mask" || sk).
func genCommitmentMask(sk *types.Key) *ed.Scalar {
	return hashToScalar([]byte("commitment_mask"), sk[:])
}

// EcdhDecode decode ecdhTuple info (rctOps ecdhDecode).
func EcdhDecode(masked *types.EcdhTuple, sharedSec types.Key, shortAmount bool) bool {
	if masked == nil {
		return false
	}
	if shortAmount {
		masked.Mask = types.Key(scBytes(genCommitmentMask(&sharedSec)))
		h := ecdhHash(&sharedSec)
		for i := 0; i < 8; i++ {
			masked.Amount[i] ^= h[i]
		}
		return true
	}
	s1 := hashToScalar(sharedSec[:])
	s1b := scBytes(s1)
	s2 := hashToScalar(s1b[:])
	mb, ab := [32]byte(masked.Mask), [32]byte(masked.Amount)
	masked.Mask = types.Key(scBytes(new(ed.Scalar).Subtract(scReduce32(&mb), s1)))
	masked.Amount = types.Key(scBytes(new(ed.Scalar).Subtract(scReduce32(&ab), s2)))
	return true
}

// EcdhEncode encode ecdhTuple info (rctOps ecdhEncode).
func EcdhEncode(unmasked *types.EcdhTuple, sharedSec types.Key, shortAmount bool) bool {
	if unmasked == nil {
		return false
	}
	if shortAmount {
		unmasked.Mask = types.Key{}
		h := ecdhHash(&sharedSec)
		for i := 0; i < 8; i++ {
			unmasked.Amount[i] ^= h[i]
		}
		return true
	}
	s1 := hashToScalar(sharedSec[:])
	s1b := scBytes(s1)
	s2 := hashToScalar(s1b[:])
	mb, ab := [32]byte(unmasked.Mask), [32]byte(unmasked.Amount)
	unmasked.Mask = types.Key(scBytes(new(ed.Scalar).Add(scReduce32(&mb), s1)))
	unmasked.Amount = types.Key(scBytes(new(ed.Scalar).Add(scReduce32(&ab), s2)))
	return true
}

// Scalarmult8 computes 8P.
func Scalarmult8(p types.Key) (ret types.Key, err error) {
	pt, err := decodePoint(p[:])
	if err != nil {
		return ret, err
	}
	return types.Key(encodePoint(pt.MultByCofactor(pt))), nil
}

// ScAdd returns a+b mod l.
func ScAdd(a, b types.EcScalar) (ret types.Key) {
	ab, bb := [32]byte(a), [32]byte(b)
	return types.Key(scBytes(new(ed.Scalar).Add(scReduce32(&ab), scReduce32(&bb))))
}

// ScSub returns a-b mod l.
func ScSub(a, b types.EcScalar) (ret types.Key) {
	ab, bb := [32]byte(a), [32]byte(b)
	return types.Key(scBytes(new(ed.Scalar).Subtract(scReduce32(&ab), scReduce32(&bb))))
}

// SkGen returns a random scalar.
func SkGen() (ret types.Key) {
	return types.Key(scBytes(randomScalar()))
}

// GenC returns a*G + amount*H.
func GenC(a types.Key, amount types.Lk_amount) (ret types.Key, err error) {
	ab := [32]byte(a)
	return types.Key(encodePoint(commit(scReduce32(&ab), scFromUint64(uint64(amount))))), nil
}

// AddKeys returns the point sum a+b.
func AddKeys(a, b types.Key) (ret types.Key, err error) {
	pa, err := decodePoint(a[:])
	if err != nil {
		return ret, err
	}
	pb, err := decodePoint(b[:])
	if err != nil {
		return ret, err
	}
	return types.Key(encodePoint(pa.Add(pa, pb))), nil
}

// AddKeys2 returns a*G + b*B.
func AddKeys2(a, b, B types.Key) (ret types.Key, err error) {
	pB, err := decodePoint(B[:])
	if err != nil {
		return ret, err
	}
	ab, bb := [32]byte(a), [32]byte(b)
	r := intMult(&bb, pB)
	r.Add(r, baseMult(&ab))
	return types.Key(encodePoint(r)), nil
}

// TlvAddKeyV returns the sum of all points (identity for an empty vector).
func TlvAddKeyV(a types.KeyV) (sum types.Key, err error) {
	acc, err := addKeyV(a)
	if err != nil {
		return sum, err
	}
	return types.Key(encodePoint(acc)), nil
}

func addKeyV(a types.KeyV) (*ed.Point, error) {
	acc := ed.NewIdentityPoint()
	for i := range a {
		p, err := decodePoint(a[i][:])
		if err != nil {
			return nil, err
		}
		acc.Add(acc, p)
	}
	return acc, nil
}
