package xcrypto

// Model of keys.go: CryptoNote key handling (crypto.cpp / device_default.cpp).

import (
	"encoding/binary"
	"fmt"

	"github.com/lianxiangcloud/linkchain/libs/cryptonote/types"
	ed "verif/sim/ed25519x"
)

// WordsToBytes converts seed words to the recovery key. The Monero "electrum
// words" dictionaries live inside libxcrypto and are not available here; this
// wallet-only function is therefore not modelled.
func WordsToBytes(words string) (sec types.SecretKey, err error) {
	return sec, fmt.Errorf("xcrypto model: x_words_to_bytes not available (mnemonic word lists are part of libxcrypto)")
}

// BytesToWords converts the recovery key to seed words (not modelled, see
// WordsToBytes).
func BytesToWords(sec types.SecretKey, lang string) (string, error) {
	return "", fmt.Errorf("xcrypto model: x_bytes_to_words not available (mnemonic word lists are part of libxcrypto)")
}

// GenerateKeys generates secret_key and public_key (crypto::generate_keys). A
// zero recovery key means "generate a random key"; otherwise the secret is
// sc_reduce32(recoverKey).
func GenerateKeys(recoverKey types.SecretKey) (sk types.SecretKey, pk types.PublicKey) {
	var s *ed.Scalar
	if recoverKey == (types.SecretKey{}) {
		s = randomScalar()
	} else {
		b := [32]byte(recoverKey)
		s = scReduce32(&b)
	}
	sk = types.SecretKey(scBytes(s))
	pk = types.PublicKey(encodePoint(new(ed.Point).ScalarBaseMult(s)))
	return sk, pk
}

// SecretAdd : r = a+b (sc_add).
func SecretAdd(a, b types.SecretKey) (r types.SecretKey) {
	ab, bb := [32]byte(a), [32]byte(b)
	s := new(ed.Scalar).Add(scReduce32(&ab), scReduce32(&bb))
	return types.SecretKey(scBytes(s))
}

// subaddressSecret is device_default::get_subaddress_secret_key:
// Hs("SubAddr\0" || a || major || minor), indices as little-endian uint32.
func subaddressSecret(viewSec *[32]byte, major, minor uint32) *ed.Scalar {
	data := make([]byte, 0, 8+32+8)
	data = append(data, 'S', 'u', 'b', 'A', 'd', 'd', 'r', 0)
	data = append(data, viewSec[:]...)
	var idx [8]byte
	binary.LittleEndian.PutUint32(idx[0:4], major)
	binary.LittleEndian.PutUint32(idx[4:8], minor)
	data = append(data, idx[:]...)
	return hashToScalar(data)
}

// GetSubaddressSecretKey get sub secret_key by index. linkchain exposes a
// single index, which libxcrypto maps to subaddress_index{major: 0, minor:
// index} (pinned by the wallet's TestGetSubaddr address vector).
func GetSubaddressSecretKey(main types.SecretKey, index uint32) (sub types.SecretKey) {
	m := [32]byte(main)
	return types.SecretKey(scBytes(subaddressSecret(&m, subaddrMajor(index), subaddrMinor(index))))
}

func subaddrMajor(index uint32) uint32 { return 0 }
func subaddrMinor(index uint32) uint32 { return index }

// GetSubaddress get sub public_key pair by index
func GetSubaddress(keys *types.AccountKey, index uint32) (addr types.AccountAddress) {
	addr, err := TlvGetSubaddress(keys, index)
	if err != nil {
		panic(err)
	}
	return addr
}

// TlvGetSubaddress is device_default::get_subaddress: index 0 is the main
// address, otherwise D = B + Hs(...)*G and C = a*D.
func TlvGetSubaddress(keys *types.AccountKey, index uint32) (addr types.AccountAddress, err error) {
	if keys == nil {
		return addr, fmt.Errorf("xcrypto model: nil account keys")
	}
	if index == 0 {
		return keys.Addr, nil
	}
	b, err := decodePoint(keys.Addr.SpendPublicKey[:])
	if err != nil {
		return addr, fmt.Errorf("cgo TlvGetSubaddress internal fail")
	}
	view := [32]byte(keys.ViewSKey)
	m := subaddressSecret(&view, subaddrMajor(index), subaddrMinor(index))
	d := new(ed.Point).Add(b, new(ed.Point).ScalarBaseMult(m))
	c := geScalarmult(&view, d)
	addr.SpendPublicKey = types.PublicKey(encodePoint(d))
	addr.ViewPublicKey = types.PublicKey(encodePoint(c))
	return addr, nil
}

// GenerateKeyDerivation generate KeyDerivation: 8*sec*pub.
func GenerateKeyDerivation(pub types.PublicKey, sec types.SecretKey) (der types.KeyDerivation, err error) {
	p, err := decodePoint(pub[:])
	if err != nil {
		return der, fmt.Errorf("CGO x_generate_key_derivation fail")
	}
	s := [32]byte(sec)
	r := geScalarmult(&s, p)
	r.MultByCofactor(r)
	return types.KeyDerivation(encodePoint(r)), nil
}

func derivationToScalar(derivation *types.KeyDerivation, outIndex int) *ed.Scalar {
	buf := make([]byte, 0, 32+10)
	buf = append(buf, derivation[:]...)
	buf = putVarint(buf, uint64(outIndex))
	return hashToScalar(buf)
}

// DerivationToScalar key-derivation to ec-scalar: Hs(derivation || varint(idx)).
func DerivationToScalar(derivation types.KeyDerivation, outIndex int) (res types.EcScalar, err error) {
	return types.EcScalar(scBytes(derivationToScalar(&derivation, outIndex))), nil
}

// DeriveSubaddressPublicKey derive public-key for subaddress: out_key - Hs*G.
func DeriveSubaddressPublicKey(pub types.PublicKey, derivation types.KeyDerivation, outIndex int) (derPub types.PublicKey, err error) {
	p, err := decodePoint(pub[:])
	if err != nil {
		return derPub, fmt.Errorf("CGO x_derive_subadress_public_key fail")
	}
	hs := derivationToScalar(&derivation, outIndex)
	r := new(ed.Point).Subtract(p, new(ed.Point).ScalarBaseMult(hs))
	return types.PublicKey(encodePoint(r)), nil
}

// DeriveSecretKey derive sub secret-key: base + Hs.
func DeriveSecretKey(derivation types.KeyDerivation, outIndex int, sec types.SecretKey) (derSec types.SecretKey, err error) {
	hs := derivationToScalar(&derivation, outIndex)
	b := [32]byte(sec)
	r := new(ed.Scalar).Add(scReduce32(&b), hs)
	return types.SecretKey(scBytes(r)), nil
}

// DerivePublicKey derive sub public-key: Hs*G + base.
func DerivePublicKey(derivation types.KeyDerivation, outIndex int, pub types.PublicKey) (derPub types.PublicKey, err error) {
	p, err := decodePoint(pub[:])
	if err != nil {
		return derPub, fmt.Errorf("CGO x_derive_public_key fail")
	}
	hs := derivationToScalar(&derivation, outIndex)
	r := new(ed.Point).Add(p, new(ed.Point).ScalarBaseMult(hs))
	return types.PublicKey(encodePoint(r)), nil
}

// SecretKeyToPublicKey get public-key from secret-key (fails when the secret is
// not a canonical scalar).
func SecretKeyToPublicKey(sec types.SecretKey) (pub types.PublicKey, err error) {
	b := [32]byte(sec)
	s, err := scCanonical(&b)
	if err != nil {
		return pub, fmt.Errorf("CGO x_secret_key_to_public_key fail")
	}
	return types.PublicKey(encodePoint(new(ed.Point).ScalarBaseMult(s))), nil
}

// GenerateKeyImage generate key_image: sec * Hp(pub).
func GenerateKeyImage(pub types.PublicKey, sec types.SecretKey) (ki types.KeyImage, err error) {
	hp := hashToPoint(pub[:])
	s := [32]byte(sec)
	return types.KeyImage(encodePoint(geScalarmult(&s, hp))), nil
}
