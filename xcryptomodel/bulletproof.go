package xcrypto

// Range proofs.
//
// PROVER: a TRANSPARENT STAND-IN, not a Bulletproof. It is complete and sound
// but NOT hiding: the proof carries every amount and every commitment mask in
// the clear and the verifier simply re-opens the commitments. The shape of the
// proof (number of L/R keys, V premultiplied by 1/8, masks derived with
// genCommitmentMask) is the same as for a genuine Monero Bulletproof so that
// all structural checks in linkchain behave as with the real library.
//
// VERIFIER: accepts either a stand-in proof (recognised by its binding digest
// in field T) or a GENUINE Bulletproof (Monero's for 64 bits, linkchain's
// N = 128 variant for 128 bits), which is checked with the genuine
// verification algorithm (bulletproof_real.go).
//
// Stand-in layout for n = len(V) outputs, bits in {64, 128}:
//
//	len(L) = len(R) = log2(bits) + ceil(log2(n))                (as genuine)
//	amount j  : 16 little-endian bytes, lane j%2 of field [A,S,T1,T2,Taux,Mu,Aa,B][j/2]
//	            (unused lanes are zero)
//	mask j    : slot j of the sequence L[0..] ++ R[0..]            (canonical scalar)
//	other slots: pad_k = H(domain || "pad" || k || digest)
//	T         : digest = H(domain || bits || n || V[0..n) || amount fields || masks)
//
// Verification recomputes every field, so changing any byte of the proof or of
// V makes it fail, and checks for each j
//
//	amount_j < 2^bits   and   8*V[j] == mask_j*G + amount_j*H.

import (
	"fmt"

	"github.com/lianxiangcloud/linkchain/libs/cryptonote/types"
	ed "verif/sim/ed25519x"
)

const (
	bpDomain     = "verif/xcryptomodel transparent range proof v1"
	bpMaxOutputs = 16
)

func bpLog2(bits int) int {
	if bits == 128 {
		return 7
	}
	return 6
}

func ceilLog2(n int) int {
	lg := 0
	for (1 << uint(lg)) < n {
		lg++
	}
	return lg
}

func bpAmountFields(p *types.Bulletproof) [8]*types.Key {
	return [8]*types.Key{&p.A, &p.S, &p.T1, &p.T2, &p.Taux, &p.Mu, &p.Aa, &p.B}
}

func bpSlot(p *types.Bulletproof, k int) *types.Key {
	if k < len(p.L) {
		return &p.L[k]
	}
	return &p.R[k-len(p.L)]
}

func bpDigest(bits int, v types.KeyV, p *types.Bulletproof, masks []types.Key) [32]byte {
	buf := make([]byte, 0, len(bpDomain)+2+32*(len(v)+8+len(masks)))
	buf = append(buf, bpDomain...)
	buf = append(buf, byte(bits), byte(len(v)))
	for i := range v {
		buf = append(buf, v[i][:]...)
	}
	for _, f := range bpAmountFields(p) {
		buf = append(buf, f[:]...)
	}
	for i := range masks {
		buf = append(buf, masks[i][:]...)
	}
	return cnFastHash(buf)
}

func bpPad(k int, digest *[32]byte) types.Key {
	return types.Key(cnFastHash([]byte(bpDomain), []byte("pad"), []byte{byte(k)}, digest[:]))
}

// proveRange builds the stand-in proof. sk are the per-output amount keys
// (ECDH shared scalars); like rct::proveRangeBulletproof the commitment masks
// are genCommitmentMask(sk[i]).
func proveRange(amounts types.KeyV, sk types.KeyV, bits int) (*types.Bulletproof, types.KeyV, types.KeyV, error) {
	n := len(amounts)
	if n != len(sk) {
		return nil, nil, nil, fmt.Errorf("tlv_proveRangeBulletproof internal error: Invalid amounts/sk sizes")
	}
	if n == 0 || n > bpMaxOutputs {
		return nil, nil, nil, fmt.Errorf("tlv_proveRangeBulletproof internal error: invalid number of outputs %d", n)
	}
	masks := make(types.KeyV, n)
	c := make(types.KeyV, n)
	proof := &types.Bulletproof{}
	fields := bpAmountFields(proof)
	for j := 0; j < n; j++ {
		m := genCommitmentMask(&sk[j])
		masks[j] = types.Key(scBytes(m))
		ab := [32]byte(amounts[j])
		// V = (mask/8)*G + (amount/8)*H, exactly as bulletproof_PROVE.
		p := commit(new(ed.Scalar).Multiply(m, scInvEight), new(ed.Scalar).Multiply(scReduce32(&ab), scInvEight))
		c[j] = types.Key(encodePoint(p))
		// Only the low 16 bytes of the amount are recorded: an amount that
		// does not fit can never be proven to be in range.
		copy(fields[j/2][(j%2)*16:(j%2)*16+16], amounts[j][:16])
	}
	size := bpLog2(bits) + ceilLog2(n)
	proof.L = make(types.KeyV, size)
	proof.R = make(types.KeyV, size)
	proof.V = make(types.KeyV, n)
	copy(proof.V, c)
	digest := bpDigest(bits, proof.V, proof, masks)
	for k := 0; k < 2*size; k++ {
		if k < n {
			*bpSlot(proof, k) = masks[k]
		} else {
			*bpSlot(proof, k) = bpPad(k, &digest)
		}
	}
	proof.T = types.Key(digest)
	return proof, c, masks, nil
}

// verTransparent checks a stand-in proof. isStandIn tells whether the proof
// carries the stand-in digest at all (if not, the caller may try the genuine
// Bulletproof verifier).
func verTransparent(p *types.Bulletproof, bits int) (ok bool, isStandIn bool) {
	n := len(p.V)
	if n == 0 || n > bpMaxOutputs {
		return false, false
	}
	size := bpLog2(bits) + ceilLog2(n)
	if len(p.L) != size || len(p.R) != size {
		return false, false
	}
	masks := make([]types.Key, n)
	for j := 0; j < n; j++ {
		masks[j] = *bpSlot(p, j)
	}
	digest := bpDigest(bits, p.V, p, masks)
	if p.T != types.Key(digest) {
		return false, false
	}
	// From here on the proof claims to be a stand-in proof.
	for k := n; k < 2*size; k++ {
		if *bpSlot(p, k) != bpPad(k, &digest) {
			return false, true
		}
	}
	fields := bpAmountFields(p)
	for j := 0; j < 16; j++ {
		lane := fields[j/2][(j%2)*16 : (j%2)*16+16]
		if j >= n {
			for _, b := range lane {
				if b != 0 {
					return false, true
				}
			}
			continue
		}
		for i := bits / 8; i < 16; i++ {
			if lane[i] != 0 {
				return false, true // amount >= 2^bits
			}
		}
		var ab [32]byte
		copy(ab[:16], lane)
		mb := [32]byte(masks[j])
		m, err := scCanonical(&mb)
		if err != nil {
			return false, true
		}
		v, err := decodePoint(p.V[j][:])
		if err != nil {
			return false, true
		}
		v8 := new(ed.Point).MultByCofactor(v)
		if v8.Equal(commit(m, scReduce32(&ab))) != 1 {
			return false, true
		}
	}
	return true, true
}

func verBulletproof(p *types.Bulletproof, bits int) (bool, error) {
	if p == nil {
		return false, fmt.Errorf("cgo TlvVerBulletproof internal fail")
	}
	ok, standIn := verTransparent(p, bits)
	if standIn {
		return ok, nil
	}
	return verBulletproofGenuine(p, bits), nil
}

// TlvProveRangeBulletproof proves that every amount (32-byte little-endian
// scalar) is below 2^64. It returns the proof, the commitments premultiplied by
// 1/8 (callers apply Scalarmult8) and the commitment masks
// genCommitmentMask(sk[i]).
func TlvProveRangeBulletproof(amounts types.KeyV, sk types.KeyV) (b *types.Bulletproof, c types.KeyV, masks types.KeyV, err error) {
	return proveRange(amounts, sk, 64)
}

// TlvProveRangeBulletproof128 is the linkchain variant for amounts below 2^128.
func TlvProveRangeBulletproof128(amounts types.KeyV, sk types.KeyV) (b *types.Bulletproof, c types.KeyV, masks types.KeyV, err error) {
	return proveRange(amounts, sk, 128)
}

// TlvVerBulletproof verifies a 64-bit range proof for the commitments 8*V[j].
func TlvVerBulletproof(bp *types.Bulletproof) (bool, error) {
	return verBulletproof(bp, 64)
}

// TlvVerBulletproof128 verifies a 128-bit range proof for the commitments 8*V[j].
func TlvVerBulletproof128(bp *types.Bulletproof) (bool, error) {
	return verBulletproof(bp, 128)
}
