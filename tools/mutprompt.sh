#!/bin/bash
# tools/mutprompt.sh <property-id> <labname> [n]  — prints the prompt for a mutation sub-agent
id="$1"; lab="/tmp/mutlab/$2"; n="${3:-3}"
prop=$(grep "\"id\": *\"$id\"" /verif/properties.jsonl || grep "\"id\":\"$id\"" /verif/properties.jsonl)
cat <<P
You are a software engineer helping to evaluate a verification effort by writing realistic faulty versions ("mutations") of a Go code base. The code base is the blockchain node lianxiangcloud/linkchain. You work ONLY inside your private lab directory $lab (read $lab/README.md first: it explains the layout, the offline Go environment, how to build, and how to run tests — including tests of packages that normally cannot link in this sandbox). Never read or write anything under /verif, and never modify /repo (your editable copy of the repository is $lab/wt). There is no network.

The property under study (this is ALL you are told about what will be checked):

$prop

Task: produce $n DIFFERENT changes to linkchain (each a small patch against a clean $lab/wt, 1–15 changed lines typical; at most a few dozen) such that each change (a) breaks the property above, (b) still compiles (\`cd $lab/wt && go build ./...\`), (c) still passes the repository's existing tests (see README: at least the tests of every package you touched and its dependants in the linkable set; state exactly what you ran), and (d) needs something SPECIFIC to manifest — a particular interleaving or message schedule, a crash or fault at a particular point, a multi-step sequence of operations, an unusual input or boundary value, or two cooperating sites that each look fine alone — NOT a change that ordinary use would expose at once (e.g. not "always return an error", not something that breaks every block). Prefer the kinds of mistakes real maintainers make: an off-by-one in a threshold, a dropped or reordered check, a missed case in a switch, a stale cache, a missing copy, a forgotten persist/sync, a comparison against the wrong field, an early return that skips bookkeeping, a lock released too early. The $n changes must differ in mechanism and location (spread them over the files the property is anchored in).

For EACH change write a demonstration: a Go test (or small program) that FAILS with the change applied and PASSES on the clean tree, exercising the real code (not a copy). Run it both ways yourself and record the outputs. Keep the demonstration separate from the mutation patch.

Deliverables, for change k = 1..$n, in $lab/out/k/: patch.diff (output of \`git -C $lab/wt diff\` for that change only — reset the worktree with \`git -C $lab/wt checkout -- . && git -C $lab/wt clean -fdq\` between changes, keeping your demo files outside wt or re-adding them), demo_test.go (or demo/ directory) plus the exact command to run it, and meta.json: {"property":"$id","title":"...","what_it_breaks":"...","needs_to_manifest":"...","files":["..."],"how_demo_was_run":"...","demo_fails_with_patch":true,"demo_passes_without_patch":true,"existing_tests_run":["..."],"notes":"..."}.
Finish with a concise summary listing the $n changes (title, file:function, what is needed to manifest, demo command). Work autonomously; do not ask questions. Leave $lab/wt clean (no patch applied) at the end.
P
