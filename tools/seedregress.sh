#!/bin/bash
# tools/seedregress.sh <seeded-id>...  — re-runs the registered quick check of
# each seeded change's property against a scratch worktree with that change
# applied (detection regression after a rig's tape layout or workload changed).
# One line per change; the worktree is removed at the end.
cd /verif
wt=/tmp/wt-regress-$$
git -C /repo worktree add -q --detach "$wt" HEAD || exit 2
for sid in "$@"; do
  id=${sid%%-*}
  git -C "$wt" checkout -q -- .; git -C "$wt" clean -fdq
  if ! git -C "$wt" apply "/verif/seeded/$sid/patch.diff" 2>/dev/null; then echo "$sid patch-does-not-apply"; continue; fi
  out=$(VERIF_REPO="$wt" ./check "$id" 2>&1); rc=$?
  echo "$sid rc=$rc $(echo "$out" | grep -c '^VIOLATION') violations | $(echo "$out" | grep -m1 'REPRODUCED' | cut -c1-120)"
done
git -C /repo worktree remove --force "$wt"; git -C /repo worktree prune
rm -rf /verif/build/alt-* /verif/sim/go.alt-*
