#!/bin/bash
# tools/quick_all.sh : runs every registered quick check against /repo, one after the other; prints one line each
cd /verif
for id in $(jq -r '.checks[].property_id' MANIFEST.json); do
  start=$(date +%s)
  out=$(./check "$id" 2>&1); rc=$?
  echo "$id rc=$rc wall=$(( $(date +%s) - start ))s $(echo "$out" | grep -c '^VIOLATION') violations $(echo "$out" | grep -c '^KNOWN-FINDING') known | $(echo "$out" | grep '^SUMMARY' | cut -c1-160)"
  echo "$out" | grep "^HARNESS\|^VIOLATION" | head -3
done
