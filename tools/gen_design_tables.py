#!/usr/bin/env python3
"""Regenerates the data-driven tables of DESIGN.md (between the BEGIN/END
markers) from known_findings.json, seeded/*/meta.json and evidence/*.json."""
import json, os, glob, re, subprocess
root = os.path.dirname(os.path.dirname(os.path.abspath(__file__)))

def findings_table():
    es = json.load(open(os.path.join(root, "known_findings.json")))
    out = ["| property | status | key | commit | what |", "|---|---|---|---|---|"]
    # group the 22 C02/vote keys
    grouped = []
    c02 = [e for e in es if e["property"] == "C02" and e["key"].startswith("C02/vote/")]
    rest = [e for e in es if e not in c02]
    if c02:
        grouped.append({"property": "C02", "status": c02[0]["status"], "key": "C02/vote/<entry> (%d catalogue entries: %s)" % (len(c02), ", ".join(e["key"].split("/")[-1] for e in c02)),
                        "commit": c02[0].get("commit", ""), "what": "honest validators prevoted (and committed) a Byzantine proposer's block invalid by <entry>: validateBlock ran only inside ApplyBlock, after the commit"})
    for e in sorted(grouped + rest, key=lambda e: (e["property"], e["status"], e["key"])):
        what = e["what"].replace("|", "/").replace("\n", " ")
        if len(what) > 330:
            what = what[:327] + "..."
        out.append("| %s | %s | `%s` | %s | %s |" % (e["property"], e["status"], e["key"], e.get("commit", ""), what))
    return "\n".join(out)

def seeded_table():
    out = ["| id | change (file: what) | needs to manifest | caught by the registered check? |", "|---|---|---|---|"]
    for d in sorted(glob.glob(os.path.join(root, "seeded", "*"))):
        mp = os.path.join(d, "meta.json")
        if not os.path.exists(mp):
            continue
        m = json.load(open(mp))
        c = m.get("confirmed_by_main_session", {})
        title = m.get("title", "").replace("|", "/")
        files = ", ".join(m.get("files", [])[:3]) if isinstance(m.get("files"), list) else str(m.get("files", ""))
        need = str(m.get("needs_to_manifest", "")).replace("|", "/").replace("\n", " ")
        if len(need) > 260:
            need = need[:257] + "..."
        res = ("yes: " if c.get("caught_by_registered_check") else "NO: ") + str(c.get("check_result", "")).replace("|", "/")
        out.append("| %s | %s: %s | %s | %s |" % (os.path.basename(d), files, title, need, res))
    return "\n".join(out)

def evidence_table():
    out = ["| id | level | tier | runs | non-trivial | distinct | oracle evals | events | sim time s | wall s | runs/hour | fault kinds fired |", "|---|---|---|---|---|---|---|---|---|---|---|---|"]
    for p in sorted(glob.glob(os.path.join(root, "evidence", "C*.json"))):
        e = json.load(open(p))
        c = e["coverage"]
        out.append("| %s | %s | %s | %s | %s | %s | %s | %s | %s | %.0f | %s | %d |" % (e["property_id"], e["level"], e["tier"], c.get("runs"), c.get("nontrivial_runs"), c.get("distinct_nontrivial"),
                   c.get("oracle_evaluations"), c.get("events"), c.get("sim_time_s"), e["wall_s"], c.get("runs_per_hour"), len(c.get("faults_fired") or {})))
    return "\n".join(out)

def seed_stats():
    w = {1: [0, 0, 0], 2: [0, 0, 0], 3: [0, 0, 0], 4: [0, 0, 0]}
    for d in sorted(glob.glob(os.path.join(root, "seeded", "*"))):
        mp = os.path.join(d, "meta.json")
        if not os.path.exists(mp):
            continue
        m = json.load(open(mp))
        pid, k = os.path.basename(d).split("-")
        k = int(k)
        off = 1 if pid == "C01" else 0
        wave = 1 if k <= 3 + off else (2 if k <= 6 + off else 3)
        c = m.get("confirmed_by_main_session", {})
        mw = re.match(r"wave (\d)", str(c.get("check_result", "")))
        if mw:
            wave = int(mw.group(1))
        w[wave][0] += 1
        if "first missed" in str(c.get("check_result", "")).lower() or "first not caught" in str(c.get("check_result", "")).lower():
            w[wave][1] += 1
        if not c.get("caught_by_registered_check"):
            w[wave][2] += 1
    parts = []
    for i, name in ((1, "first"), (2, "second"), (3, "third (six properties)"), (4, "fourth (fifteen properties, one or two changes each)")):
        parts.append("%s wave %d changes, %d caught by the check as it stood, %d caught after strengthening, %d not caught by the property's own check" % (
            name, w[i][0], w[i][0] - w[i][1] - w[i][2], w[i][1], w[i][2]))
    return "Counts (generated from `seeded/*/meta.json`): " + "; ".join(parts) + "."

def replace(doc, name, body):
    pat = re.compile(r"(<!-- BEGIN %s -->\n)(.*?)(<!-- END %s -->)" % (name, name), re.S)
    if not pat.search(doc):
        return doc
    return pat.sub(lambda m: m.group(1) + body + "\n" + m.group(3), doc)

p = os.path.join(root, "DESIGN.md")
doc = open(p).read()
doc = replace(doc, "FINDINGS", findings_table())
doc = replace(doc, "SEEDED", seeded_table())
doc = replace(doc, "EVIDENCE", evidence_table())
doc = replace(doc, "SEEDSTATS", seed_stats())
open(p, "w").write(doc)
print("DESIGN.md tables regenerated")
