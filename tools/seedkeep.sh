#!/bin/bash
# tools/seedkeep.sh <labname> <k> <property> <mode> <pkg-or-dash> <TestRegex> <caught: yes|no> <check-note>
#   mode inpkg: demo files are in-package tests of linkchain package <pkg> (copied into wt/<pkg>)
#   mode demo : demo files form package demo under harness/demo
# Re-confirms independently of the sub-agent: lab worktree at /repo HEAD, demo on
# the clean tree must PASS, demo with the patch must FAIL, the patched tree must
# compile. Keeps the change under /verif/seeded/<property>-<k>/.
set -u
lab="/tmp/mutlab/$1"; k="$2"; id="$3"; mode="$4"; pkg="$5"; re="$6"; caught="$7"; note="${8:-}"
export GOFLAGS=-mod=mod GOPROXY=off GOSUMDB=off GOTOOLCHAIN=local
wt="$lab/wt"; out="$lab/out/$k"; dst="/verif/seeded/$id-${SEEDK:-$k}"
git -C "$wt" checkout -q -- . ; git -C "$wt" clean -fdq; git -C "$wt" checkout -q --detach "$(git -C /repo rev-parse HEAD)"
files=""
if [ -d "$out/demo" ]; then files=$(ls "$out"/demo/*.go); else files=$(ls "$out"/*_test.go 2>/dev/null); fi
place() { # copy demo files into place
  if [ "$mode" = inpkg ]; then for f in $files; do cp "$f" "$wt/$pkg/zz_seed_$(basename "$f")"; done
  else rm -f "$lab"/harness/demo/*.go; for f in $files; do cp "$f" "$lab/harness/demo/$(basename "$f")"; done; fi; }
unplace() { if [ "$mode" = inpkg ]; then rm -f "$wt/$pkg"/zz_seed_*; else rm -f "$lab"/harness/demo/*.go; fi; }
rundemo() { local rc
  if [ "$mode" = inpkg ]; then (cd "$lab/harness" && timeout 900 go1.26.8 test -vet=off -tags verif -overlay "$lab/overlay.json" -count=1 "github.com/lianxiangcloud/linkchain/$pkg" -run "$re" > /tmp/seed_raw.txt 2>&1); rc=$?
  else (cd "$lab/harness" && timeout 900 go1.26.8 test -vet=off -tags verif -overlay "$lab/overlay.json" -count=1 ./demo/ -run "$re" > /tmp/seed_raw.txt 2>&1); rc=$?; fi
  grep -av "^t=" /tmp/seed_raw.txt; return $rc; }
place; rundemo > /tmp/seed_clean.txt 2>&1; rc_clean=$?; unplace
if ! git -C "$wt" apply "$out/patch.diff"; then echo "KEEP $id-$k: patch does not apply"; exit 3; fi
(cd "$wt" && go build $(go list ./... 2>/dev/null | grep -v "/cmd/\|/bootnode$\|/tools/\|/wallet/cmd\|/test/\|contract/test\|wasm-run") ) > /tmp/seed_build.txt 2>&1; rc_build=$?
place; rundemo > /tmp/seed_patch.txt 2>&1; rc_patch=$?; unplace
git -C "$wt" checkout -q -- . ; git -C "$wt" clean -fdq
verdict="CONFIRMED"
[ $rc_clean -eq 0 ] || verdict="REJECTED(demo fails on clean tree)"
[ $rc_patch -ne 0 ] || verdict="REJECTED(demo passes with patch)"
[ $rc_build -eq 0 ] || verdict="REJECTED(does not compile)"
echo "KEEP $id-${SEEDK:-$k}: $verdict clean_rc=$rc_clean patch_rc=$rc_patch build_rc=$rc_build caught=$caught"
[ "$verdict" = CONFIRMED ] || { tail -5 /tmp/seed_clean.txt; tail -5 /tmp/seed_patch.txt; tail -3 /tmp/seed_build.txt; exit 4; }
mkdir -p "$dst/demo"; cp "$out/patch.diff" "$dst/patch.diff"; for f in $files; do cp "$f" "$dst/demo/"; done
tail -25 /tmp/seed_clean.txt > "$dst/demo_output_clean.txt"; tail -40 /tmp/seed_patch.txt > "$dst/demo_output_with_patch.txt"
python3 - "$out/meta.json" "$dst/meta.json" "$id" "$mode" "$pkg" "$re" "$caught" "$note" "$(git -C /repo rev-parse --short HEAD)" <<'PY'
import json,sys
src,dst,id,mode,pkg,re,caught,note,head=sys.argv[1:10]
try: m=json.load(open(src))
except Exception: m={}
m['property']=id
m['confirmed_by_main_session']={
 "repo_head":head,
 "patched_tree_compiles":True,
 "demo_on_clean_tree":"PASS","demo_with_patch":"FAIL",
 "demo_command":("in-package test of linkchain/%s: copy demo/*.go into <worktree>/%s, then " % (pkg,pkg) if mode=='inpkg' else "copy demo/*.go into a harness module's demo/ package, then ")+"go1.26.8 test -vet=off -tags verif -overlay <overlay.json> -count=1 "+("github.com/lianxiangcloud/linkchain/%s"%pkg if mode=='inpkg' else "./demo/")+" -run '%s'"%re,
 "existing_tests":"see existing_tests_run (sub-agent); the pinned suite contains no package that imports the changed code unless listed there",
 "check_run":"VERIF_REPO=<patched worktree> ./check %s (quick tier)"%id,
 "caught_by_registered_check": caught=="yes",
 "check_result":note}
json.dump(m,open(dst,'w'),indent=1)
PY
