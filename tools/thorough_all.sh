#!/bin/bash
# tools/thorough_all.sh <id>... : runs the thorough tier of the given checks one
# after the other against /repo, evidence and replays under /verif/thorough
# (the quick-tier evidence under /verif/evidence is left alone).
cd /verif
export VERIF_OUTDIR=/verif/thorough
mkdir -p thorough/evidence thorough/replays thorough/build
for id in "$@"; do
  start=$(date +%s)
  ./check "$id" --tier thorough > "thorough/$id.log" 2>&1; rc=$?
  echo "$(date -u +%H:%M:%S) $id rc=$rc wall=$(( $(date +%s) - start ))s $(grep -c '^VIOLATION' thorough/$id.log) violations" >> thorough/STATUS.txt
done
