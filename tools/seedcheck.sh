#!/bin/bash
# tools/seedcheck.sh <labname> <k> <property-id> [demo-run-cmd...]
# Confirms one seeded change delivered by a mutation sub-agent and runs the
# registered check against it:
#  1. lab worktree reset to /repo HEAD, patch applied, `go build ./...` of non-main packages
#  2. ./check <id> (quick) with VERIF_REPO=<lab>/wt  -> expect exit 1 + VIOLATION
#  3. worktree reset
# Output: a verdict line and the check's summary; nothing is written to /repo.
set -u
lab="/tmp/mutlab/$1"; k="$2"; id="$3"
wt="$lab/wt"
git -C "$wt" checkout -q -- . ; git -C "$wt" clean -fdq; git -C "$wt" checkout -q --detach "$(git -C /repo rev-parse HEAD)"
if ! git -C "$wt" apply "$lab/out/$k/patch.diff" 2>/tmp/seed_apply.err; then echo "SEED $1/$k: patch does not apply to current HEAD: $(head -3 /tmp/seed_apply.err)"; exit 3; fi
if ! (cd "$wt" && go build $(go list ./... 2>/dev/null | grep -v "/cmd/\|/bootnode$\|/tools/\|/wallet$\|/test/" ) ) > /tmp/seed_build.log 2>&1; then
  if grep -q "^#\|error" /tmp/seed_build.log && ! grep -q "cannot find -l" /tmp/seed_build.log; then echo "SEED $1/$k: does not compile"; head -5 /tmp/seed_build.log; fi
fi
cd /verif
out=$(VERIF_REPO="$wt" ./check "$id" 2>&1); rc=$?
echo "$out" | grep "SUMMARY\|VIOLATION\|HARNESS\|REPRODUCED\|KNOWN" | cut -c1-260 | head -12
echo "$out" | grep -A1 "REPRODUCED" | grep "^  " | head -3 | cut -c1-300
echo "SEED $1/$k check=$id exit=$rc"
git -C "$wt" checkout -q -- . ; git -C "$wt" clean -fdq
