#!/bin/bash
# tools/mutlab.sh <name>  — create an isolated "mutation lab" under /tmp/mutlab/<name>:
#   wt/       a git worktree of /repo HEAD (the copy a sub-agent edits)
#   harness/  a Go module (go 1.26.8, module path verif/sim) that replaces
#             linkchain => ../wt and carries only the neutral enablers needed
#             to LINK linkchain in this sandbox (the libxcrypto binary is
#             absent): the pure-Go xcrypto model's edwards25519 package.
#             Demonstration tests go in harness/demo/.
#   overlay.json  swaps wt's four cgo xcrypto files for the pure-Go model
#   README.md how to build and test
# Nothing of the checks, rigs or oracles of /verif is copied.
# tools/mutlab.sh --rm <name> removes the lab and its worktree.
set -eu
if [ "${1:-}" = "--rm" ]; then
  name="$2"; lab="/tmp/mutlab/$name"
  git -C /repo worktree remove --force "$lab/wt" 2>/dev/null || true
  rm -rf "$lab"; git -C /repo worktree prune; exit 0
fi
name="$1"; lab="/tmp/mutlab/$name"
[ ! -e "$lab" ] || { echo "$lab exists"; exit 1; }
mkdir -p "$lab/harness/demo" "$lab/model"
git -C /repo worktree add -q --detach "$lab/wt" HEAD
cp -r /verif/sim/ed25519x "$lab/harness/ed25519x"
cp /verif/xcryptomodel/*.go "$lab/model/"
cat > "$lab/harness/go.mod" <<MOD
module verif/sim

go 1.26.8

require github.com/lianxiangcloud/linkchain v0.0.0

replace (
	github.com/lianxiangcloud/linkchain => $lab/wt
	github.com/NebulousLabs/go-upnp => github.com/lianxiangcloud/go-upnp v0.0.0-20190905032046-65768e0b268c
	github.com/go-interpreter/wagon => github.com/xunleichain/wagon v0.5.3
	gopkg.in/sourcemap.v1 => github.com/go-sourcemap/sourcemap v1.0.5
)
MOD
cp /verif/sim/go.sum "$lab/harness/go.sum"
dst="$lab/wt/libs/cryptonote/xcrypto"
{
  echo '{"Replace":{'
  first=1
  for f in keys.go rct.go tlv_call.go ld_linux.go; do
    [ $first = 1 ] || echo ','; first=0
    printf '  "%s/%s": ""' "$dst" "$f"
  done
  for f in "$lab"/model/*.go; do
    echo ','
    printf '  "%s/verifmodel_%s": "%s"' "$dst" "$(basename "$f")" "$f"
  done
  echo; echo '}}'
} > "$lab/overlay.json"
cat > "$lab/README.md" <<MD
# Mutation lab $name

- \`wt/\` is your private copy (git worktree) of lianxiangcloud/linkchain. Edit ONLY there (never /repo, never /verif).
- The sandbox has no network and the C++ library libxcrypto is absent, so any package importing linkchain's \`types\` links only
  through \`overlay.json\`, which substitutes a pure-Go model for \`libs/cryptonote/xcrypto\`. Go 1.26.8 is required
  (\`go1.26.8\` on PATH). Every shell call needs:
  \`export GOFLAGS=-mod=mod GOPROXY=off GOSUMDB=off GOTOOLCHAIN=local\`
- Compile everything you touched:   \`cd $lab/wt && go build ./... \`  (default go, no overlay needed for a compile-only check)
- Run linkchain's own in-package tests of a package (incl. ones that normally cannot link):
  \`cd $lab/harness && go1.26.8 test -vet=off -tags verif -overlay $lab/overlay.json -count=1 github.com/lianxiangcloud/linkchain/<pkg> -run <Regex>\`
- Write your demonstration as a Go test under \`harness/demo/\` (package demo, may import any linkchain package; build tag
  \`verif\` additionally exposes a few simulation hooks in \`consensus/verif_hooks.go\`) or as an in-package \`_test.go\` file inside wt
  (keep it separate from the mutation itself). Run: \`cd $lab/harness && go1.26.8 test -vet=off -tags verif -overlay $lab/overlay.json -count=1 ./demo/ -run <Name> -v\`
- "Existing tests" = the repository's pinned suite: the packages that link WITHOUT the overlay with the default toolchain
  (\`cd wt && go test -vet=off -count=1 ./libs/... ./config/... ./accounts/abi/... ./console/jsre/...\` and similar leaf packages).
  Run at least the tests of every package you changed and of packages importing it that are in that set.
- Deliver: \`$lab/out/patch.diff\` (\`git -C wt diff\` of the mutation only), \`$lab/out/demo_test.go\` (the demonstration),
  \`$lab/out/meta.json\` {"property","title","what_it_breaks","needs_to_manifest","files","how_demo_was_run","demo_fails_with_patch":true,"demo_passes_without_patch":true,"existing_tests_run":[...]}.
MD
mkdir -p "$lab/out"
echo "$lab"
