#!/usr/bin/env python3
"""Regenerates MANIFEST.json from tools/checks.json (the per-property texts)
and validates it against the schema when jsonschema is importable."""
import json, os, sys
root = os.path.dirname(os.path.dirname(os.path.abspath(__file__)))
spec = json.load(open(os.path.join(root, "tools", "checks.json")))
props = [json.loads(l)["id"] for l in open(os.path.join(root, "properties.jsonl"))]
checks, na = [], []
for pid in props:
    c = spec["checks"].get(pid)
    if c is None or c.get("disabled"):
        na.append({"property_id": pid, "reason": (c or {}).get("reason", "check not built yet (work in progress); see DESIGN.md")})
        continue
    checks.append({
        "property_id": pid,
        "quick_cmd": f"./check {pid} --tier quick",
        "thorough_cmd": f"./check {pid} --tier thorough",
        "evidence_file": f"/verif/evidence/{pid}.json",
        "replay_cmd_template": f"./check {pid} --replay {{path}}",
        "engine": "simcheck",
        "level_claimed": {"category": c["level"], "text": c["text"], "design_ref": c.get("design_ref", f"DESIGN.md §5 {pid}")},
        "level_note": c["note"],
        "technique": c["technique"],
    })
m = {
    "version": 1,
    "setup_cmd": "./setup.sh",
    "hooks": spec["hooks"],
    "engines": [{"name": "simcheck", "path": "/verif/sim", "serves_properties": [c["property_id"] for c in checks],
                 "kind_free_text": "deterministic simulation with fault injection: seeded choice tape, per-property rigs over the real linkchain packages (Go 1.26.8, testing/synctest virtual clock, SimDB, simulated transport), tape shrinking, fresh-process replay"}],
    "checks": checks,
    "notes": spec.get("notes", ""),
    "not_applicable": na,
}
json.dump(m, open(os.path.join(root, "MANIFEST.json"), "w"), indent=1)
try:
    import jsonschema
    jsonschema.validate(m, json.load(open("/root/.vp/MANIFEST.schema.json")))
    print("MANIFEST.json valid;", len(checks), "checks,", len(na), "not claimed")
except ImportError:
    print("MANIFEST.json written (jsonschema not importable here; run with python3-vt to validate)")
