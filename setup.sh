#!/bin/bash
# Offline setup: generate the overlay and build the check binary of every
# property claimed in MANIFEST.json (warms the Go build cache; ./check rebuilds
# incrementally from /repo's working tree on every invocation anyway).
set -u
cd "$(dirname "$0")"
. ./env.sh
mkoverlay
mkdir -p build evidence replays
rc=0
for id in $(jq -r '.checks[].property_id' MANIFEST.json); do
  lc=$(echo "$id" | tr 'A-Z' 'a-z')
  if ! (cd sim && $GO test -c -vet=off -tags verif -overlay "$VERIF_ROOT/build/overlay.json" -o "$VERIF_ROOT/build/$lc.test" "./checks/$lc") > "build/$lc.build.log" 2>&1; then
    echo "setup: build failed for $id"; tail -20 "build/$lc.build.log"; rc=1
  fi
done
exit $rc
