#!/bin/bash
# Offline setup: generate the overlay, warm the build cache by building every
# check binary, run the xcrypto model vectors.
set -u
cd "$(dirname "$0")"
. ./env.sh
mkoverlay
mkdir -p build evidence replays
cp "$VERIF_REPO/go.sum" sim/go.sum 2>/dev/null || true
rc=0
for d in sim/checks/*/; do
  lc=$(basename "$d")
  if ! (cd sim && $GO test -c -vet=off -tags verif -overlay "$VERIF_ROOT/build/overlay.json" -o "$VERIF_ROOT/build/$lc.test" "./checks/$lc") > "build/$lc.build.log" 2>&1; then
    echo "setup: build failed for $lc"; tail -20 "build/$lc.build.log"; rc=1
  fi
done
exit $rc
