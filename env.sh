# sourced by setup.sh and check: offline Go 1.26.8 environment
export GOFLAGS=-mod=mod GOPROXY=off GOSUMDB=off GOTOOLCHAIN=local
export CGO_ENABLED=1
export VERIF_ROOT="${VERIF_ROOT:-/verif}"
export VERIF_REPO="${VERIF_REPO:-/repo}"
GO=go1.26.8
mkoverlay() {
  # replace the four cgo wrapper files of libs/cryptonote/xcrypto (libxcrypto
  # binary absent) by the pure-Go model in $VERIF_ROOT/xcryptomodel
  local dst="$VERIF_REPO/libs/cryptonote/xcrypto" out="${1:-$VERIF_ROOT/build/overlay.json}" first=1
  mkdir -p "$VERIF_ROOT/build"
  {
    echo '{"Replace":{'
    for f in keys.go rct.go tlv_call.go ld_linux.go; do
      [ $first = 1 ] || echo ','; first=0
      printf '  "%s/%s": ""' "$dst" "$f"
    done
    for f in "${XCRYPTO_MODEL_DIR:-$VERIF_ROOT/xcryptomodel}"/*.go; do
      case "$f" in *_test.go) continue;; esac
      echo ','
      printf '  "%s/verifmodel_%s": "%s"' "$dst" "$(basename "$f")" "$f"
    done
    echo
    echo '}}'
  } > "$out.tmp"
  mv "$out.tmp" "$out"
}
